(* Ctor.v — which (N, Sz) sectors the three wavefunction constructors create
   (C09): executable model written from _fqe_control.py / util.py / FciGraph.__init__
   and its specification as exact key sets. *)
From Coq Require Import ZArith List Bool Lia.
From FQE Require Import Addr.
Import ListNotations.
Local Open Scope Z_scope.

Definition zrange (lo hi : Z) : list Z := map (fun i => lo + Z.of_nat i) (seq 0 (Z.to_nat (hi - lo))).

Lemma in_zrange x lo hi : In x (zrange lo hi) <-> lo <= x < hi.
Proof.
  unfold zrange. rewrite in_map_iff. split.
  - intros [i [Hi Hin]]. apply in_seq in Hin. lia.
  - intros H. exists (Z.to_nat (x - lo)). split; [lia|]. apply in_seq. lia.
Qed.

(* spec of alpha_beta_electrons *)
Definition alpha_beta (nele ms : Z) : option (Z * Z) :=
  if (nele <? 0) || (nele <? Z.abs ms) || negb ((nele + ms) mod 2 =? 0) then None
  else Some ((nele + ms) / 2, nele - (nele + ms) / 2).

Ltac Zify.zify_post_hook ::= Z.to_euclidean_division_equations.

Lemma alpha_beta_some nele ms a b : alpha_beta nele ms = Some (a, b) <->
  (0 <= a /\ 0 <= b /\ a + b = nele /\ a - b = ms).
Proof.
  unfold alpha_beta.
  destruct (Z.ltb_spec nele 0) as [E1|E1]; simpl.
  { split; [discriminate|lia]. }
  destruct (Z.ltb_spec nele (Z.abs ms)) as [E2|E2]; simpl.
  { split; [discriminate|lia]. }
  destruct (Z.eqb_spec ((nele + ms) mod 2) 0) as [E3|E3]; simpl.
  - split; intros H.
    + inversion H; subst. lia.
    + f_equal. f_equal; lia.
  - split; [discriminate|]. intros H. exfalso. apply E3. lia.
Qed.

Lemma alpha_beta_none nele ms : alpha_beta nele ms = None <->
  ~ exists a b, 0 <= a /\ 0 <= b /\ a + b = nele /\ a - b = ms.
Proof.
  split.
  - intros H [a [b Hab]]. apply alpha_beta_some in Hab. congruence.
  - intros H. destruct (alpha_beta nele ms) as [[a b]|] eqn:E; [|reflexivity].
    exfalso. apply H. exists a, b. apply alpha_beta_some. exact E.
Qed.

(* FciGraph.__init__ guards *)
Definition graph_ok (na nb norb : Z) : bool :=
  (0 <=? norb) && (0 <=? na) && (0 <=? nb) && (na <=? norb) && (nb <=? norb).

(* one sector: Wavefunction([[nele, ms, norb]]) *)
Definition sector_of (nele ms norb : Z) : option (Z * Z * Z * Z) :=   (* (nele, ms, lena, lenb) *)
  match alpha_beta nele ms with
  | Some (na, nb) => if graph_ok na nb norb
                     then Some (nele, ms, binomZ norb na, binomZ norb nb) else None
  | None => None
  end.

Definition ctor_get (nele ms norb : Z) : option (list (Z * Z * Z * Z)) :=
  match sector_of nele ms norb with Some s => Some [s] | None => None end.

Fixpoint all_some {A} (l : list (option A)) : option (list A) :=
  match l with
  | [] => Some []
  | Some x :: r => match all_some r with Some xs => Some (x :: xs) | None => None end
  | None :: r => None
  end.

(* get_number_conserving_wavefunction as coded *)
Definition ctor_nc_coded (nele norb : Z) : option (list (Z * Z * Z * Z)) :=
  let maxb := Z.min norb nele in
  let minb := nele - maxb in
  all_some (map (fun nbeta => sector_of nele (nele - nbeta * 2) norb) (zrange minb (maxb + 1))).

(* get_spin_conserving_wavefunction as coded *)
Definition ctor_sc_coded (sz norb : Z) : option (list (Z * Z * Z * Z)) :=
  let max_ele := if 0 <=? sz then norb + 1 else norb + sz + 1 in
  let min_ele := if 0 <=? sz then sz else 0 in
  all_some (map (fun nalpha => sector_of (2 * nalpha - sz) sz norb) (zrange min_ele max_ele)).

(* what the property promises: reject impossible requests *)
Definition ctor_nc (nele norb : Z) : option (list (Z * Z * Z * Z)) :=
  if (nele <? 0) || (2 * norb <? nele) || (norb <? 0) then None else ctor_nc_coded nele norb.
Definition ctor_sc (sz norb : Z) : option (list (Z * Z * Z * Z)) :=
  if (norb <? Z.abs sz) || (norb <? 0) then None else ctor_sc_coded sz norb.

(* ---------------------------------------------------------------- theorems *)
Theorem ctor_get_accepts_iff nele ms norb :
  (exists l, ctor_get nele ms norb = Some l) <->
  exists na nb, 0 <= na <= norb /\ 0 <= nb <= norb /\ na + nb = nele /\ na - nb = ms.
Proof.
  unfold ctor_get, sector_of. split.
  - intros [l H]. destruct (alpha_beta nele ms) as [[na nb]|] eqn:E; [|discriminate].
    destruct (graph_ok na nb norb) eqn:G; [|discriminate].
    apply alpha_beta_some in E. unfold graph_ok in G.
    repeat (apply andb_true_iff in G; destruct G as [G ?]).
    exists na, nb. lia.
  - intros [na [nb H]]. assert (E : alpha_beta nele ms = Some (na, nb)) by (apply alpha_beta_some; lia).
    rewrite E. assert (G : graph_ok na nb norb = true).
    { unfold graph_ok. repeat (apply andb_true_iff; split); apply Z.leb_le; lia. }
    rewrite G. eauto.
Qed.

Lemma all_some_map_some {A B} (f : A -> option B) l :
  (forall x, In x l -> exists y, f x = Some y) -> exists ys, all_some (map f l) = Some ys /\ length ys = length l.
Proof.
  induction l as [|x l IH]; intros H; simpl.
  - exists []. split; reflexivity.
  - destruct (H x (or_introl eq_refl)) as [y Hy]. rewrite Hy.
    destruct IH as [ys [E L]]; [intros z Hz; apply H; right; exact Hz|].
    rewrite E. exists (y :: ys). split; [reflexivity|simpl; lia].
Qed.

Lemma all_some_in {A B} (f : A -> option B) l ys : all_some (map f l) = Some ys ->
  forall y, In y ys <-> exists x, In x l /\ f x = Some y.
Proof.
  revert ys. induction l as [|x l IH]; intros ys H y; simpl in *.
  - inversion H; subst. split; [contradiction|intros [z [[] _]]].
  - destruct (f x) as [y0|] eqn:E; [|discriminate].
    destruct (all_some (map f l)) as [ys'|] eqn:E2; [|discriminate]. inversion H; subst.
    specialize (IH ys' eq_refl y). simpl. rewrite IH. split.
    + intros [Hy|[z [Hz Hf]]]; [exists x; split; [left; reflexivity|congruence]|exists z; split; [right; exact Hz|exact Hf]].
    + intros [z [[Hz|Hz] Hf]]; [left; congruence|right; exists z; split; assumption].
Qed.

Lemma sector_of_some nele ms norb na nb :
  0 <= na <= norb -> 0 <= nb <= norb -> na + nb = nele -> na - nb = ms ->
  sector_of nele ms norb = Some (nele, ms, binomZ norb na, binomZ norb nb).
Proof.
  intros Ha Hb Hn Hm. unfold sector_of.
  assert (E : alpha_beta nele ms = Some (na, nb)) by (apply alpha_beta_some; lia). rewrite E.
  assert (G : graph_ok na nb norb = true).
  { unfold graph_ok. repeat (apply andb_true_iff; split); apply Z.leb_le; lia. }
  rewrite G. reflexivity.
Qed.

(* for a possible request the number-conserving constructor creates exactly the
   sectors (nele, na - nb) with na + nb = nele, 0 <= na, nb <= norb, each with its
   binomial dimensions; *)
Theorem ctor_nc_spec nele norb : 0 <= norb -> 0 <= nele <= 2 * norb ->
  exists l, ctor_nc nele norb = Some l /\
  forall s, In s l <-> exists na nb, 0 <= na <= norb /\ 0 <= nb <= norb /\ na + nb = nele /\
                         s = (nele, na - nb, binomZ norb na, binomZ norb nb).
Proof.
  intros Hn Hr. unfold ctor_nc.
  replace ((nele <? 0) || (2 * norb <? nele) || (norb <? 0)) with false.
  2:{ symmetry. repeat (apply orb_false_iff; split); apply Z.ltb_ge; lia. }
  unfold ctor_nc_coded.
  set (f := fun nbeta => sector_of nele (nele - nbeta * 2) norb).
  destruct (all_some_map_some f (zrange (nele - Z.min norb nele) (Z.min norb nele + 1))) as [l [E _]].
  { intros nb Hin. apply in_zrange in Hin. unfold f.
    exists (nele, nele - nb * 2, binomZ norb (nele - nb), binomZ norb nb).
    apply sector_of_some; lia. }
  exists l. split; [exact E|]. intros s. rewrite (all_some_in f _ l E). split.
  - intros [nb [Hin Hf]]. apply in_zrange in Hin. unfold f in Hf.
    rewrite (sector_of_some nele (nele - nb * 2) norb (nele - nb) nb) in Hf by lia.
    inversion Hf; subst. exists (nele - nb), nb. repeat split; try lia. f_equal. f_equal. f_equal. lia.
  - intros [na [nb [Ha [Hb [Hs Hq]]]]]. exists nb. split; [apply in_zrange; lia|].
    unfold f. rewrite (sector_of_some nele (nele - nb * 2) norb na nb) by lia. subst s. f_equal. f_equal. f_equal. f_equal. lia.
Qed.

Theorem ctor_sc_spec sz norb : 0 <= norb -> Z.abs sz <= norb ->
  exists l, ctor_sc sz norb = Some l /\
  forall s, In s l <-> exists na nb, 0 <= na <= norb /\ 0 <= nb <= norb /\ na - nb = sz /\
                         s = (na + nb, sz, binomZ norb na, binomZ norb nb).
Proof.
  intros Hn Hr. unfold ctor_sc.
  replace ((norb <? Z.abs sz) || (norb <? 0)) with false.
  2:{ symmetry. apply orb_false_iff; split; apply Z.ltb_ge; lia. }
  unfold ctor_sc_coded.
  set (f := fun nalpha => sector_of (2 * nalpha - sz) sz norb).
  set (lo := if 0 <=? sz then sz else 0). set (hi := if 0 <=? sz then norb + 1 else norb + sz + 1).
  assert (Hlo : lo = Z.max sz 0) by (unfold lo; destruct (Z.leb_spec 0 sz); lia).
  assert (Hhi : hi = Z.min norb (norb + sz) + 1) by (unfold hi; destruct (Z.leb_spec 0 sz); lia).
  destruct (all_some_map_some f (zrange lo hi)) as [l [E _]].
  { intros na Hin. apply in_zrange in Hin. unfold f.
    exists (2 * na - sz, sz, binomZ norb na, binomZ norb (na - sz)).
    apply sector_of_some; lia. }
  exists l. split; [exact E|]. intros s. rewrite (all_some_in f _ l E). split.
  - intros [na [Hin Hf]]. apply in_zrange in Hin. unfold f in Hf.
    rewrite (sector_of_some (2 * na - sz) sz norb na (na - sz)) in Hf by lia.
    inversion Hf; subst. exists na, (na - sz). repeat split; try lia.
    replace (na + (na - sz)) with (2 * na - sz) by lia. reflexivity.
  - intros [na [nb [Ha [Hb [Hs Hq]]]]]. exists na. split; [apply in_zrange; lia|].
    unfold f. rewrite (sector_of_some (2 * na - sz) sz norb na nb) by lia. subst s.
    replace (2 * na - sz) with (na + nb) by lia. reflexivity.
Qed.

(* impossible requests are rejected by the specification ... *)
Theorem ctor_nc_rejects nele norb : nele < 0 \/ 2 * norb < nele -> ctor_nc nele norb = None.
Proof.
  intros H. unfold ctor_nc. destruct H as [H|H].
  - replace (nele <? 0) with true by (symmetry; apply Z.ltb_lt; lia). reflexivity.
  - replace (2 * norb <? nele) with true by (symmetry; apply Z.ltb_lt; lia). rewrite orb_true_r. reflexivity.
Qed.

(* ... but the constructor AS CODED (before the fix) answers them with an empty wavefunction *)
Theorem ctor_nc_coded_accepts_impossible : exists nele norb,
  2 * norb < nele /\ ctor_nc_coded nele norb = Some [].
Proof. exists 7, 3. split; [lia|vm_compute; reflexivity]. Qed.

Theorem ctor_sc_coded_accepts_impossible : exists sz norb,
  norb < Z.abs sz /\ ctor_sc_coded sz norb = Some [].
Proof. exists 5, 3. split; [lia|vm_compute; reflexivity]. Qed.
