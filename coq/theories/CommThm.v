(* CommThm.v — C09: the spin-free generators commute with the spin ladder operator.
   E_ij = a†_{i alpha} a_{j alpha} + a†_{i beta} a_{j beta},   S+ = sum_k a†_{k alpha} a_{k beta}.
   comm_basic:    a†_p a_q a†_r a_s - a†_r a_s a†_p a_q = delta_qr a†_p a_s - delta_sp a†_r a_q   (any positions)
   comm_E_Splus:  E_ij S+ psi = S+ E_ij psi  for every orbital count, i, j, vector (any commutative ring):
   the reason every spin-free Hamiltonian (a polynomial in the E_ij) conserves the total spin. *)
From Coq Require Import NArith List Bool Arith Lia Ring.
From FQE Require Import Car Fock Sort Bits TableThm DvecThm SpinWick Conserve.
Import ListNotations.

Section Comm.
Variable R : Type.
Variables (rO rI : R) (radd rmul rsub : R -> R -> R) (ropp : R -> R).
Hypothesis Rth : ring_theory rO rI radd rmul rsub ropp (@eq R).
Add Ring Rr_comm : Rth.
Notation coeff := (coeff R rO radd).
Notation act_string := (act_string R ropp).
Notation act_poly := (act_poly R rmul ropp).
Notation wide := (wide R).
Notation sumf := (DvecThm.sumf R rO radd).
Infix "+" := radd. Infix "*" := rmul. Notation "- x" := (ropp x).

Lemma two_swaps p r q s V d :
  coeff (act_string [mkop p true; mkop r true; mkop q false; mkop s false] V) d
  = coeff (act_string [mkop r true; mkop p true; mkop s false; mkop q false] V) d.
Proof.
  unfold Fock.act_string. apply (coeff_lift_ext R rO rI radd rmul rsub ropp Rth). intros e.
  rewrite (string_swap_adjacent (mkop p true) (mkop r true) [] [mkop q false; mkop s false])
    by (apply anticomm_same_kind; reflexivity).
  cbn [app].
  rewrite (string_swap_adjacent (mkop q false) (mkop s false) [mkop r true; mkop p true] [])
    by (apply anticomm_same_kind; reflexivity).
  cbn [app]. apply sneg_sneg.
Qed.

Lemma comm_basic p q r s n (V : vec R) d : q < n -> s < n -> wide n V ->
  coeff (act_string [mkop p true; mkop q false; mkop r true; mkop s false] V) d
  + - coeff (act_string [mkop r true; mkop s false; mkop p true; mkop q false] V) d
  = (if Nat.eqb q r then coeff (act_string [mkop p true; mkop s false] V) d else rO)
    + - (if Nat.eqb s p then coeff (act_string [mkop r true; mkop q false] V) d else rO).
Proof.
  intros Hq Hs Hw.
  pose proof (kh_folding R rO rI radd rmul rsub ropp Rth p r q s n V d Hq Hw) as K1.
  pose proof (kh_folding R rO rI radd rmul rsub ropp Rth r p s q n V d Hs Hw) as K2.
  pose proof (two_swaps p r q s V d) as T.
  rewrite T in K1. rewrite K2 in K1.
  (* K1 : if s=p .. + - X2 = if q=r .. + - X1 *)
  set (X1 := coeff (act_string [mkop p true; mkop q false; mkop r true; mkop s false] V) d) in *.
  set (X2 := coeff (act_string [mkop r true; mkop s false; mkop p true; mkop q false] V) d) in *.
  set (A := if Nat.eqb q r then coeff (act_string [mkop p true; mkop s false] V) d else rO) in *.
  set (B := if Nat.eqb s p then coeff (act_string [mkop r true; mkop q false] V) d else rO) in *.
  (* X1 - X2 = A - B  from  B - X2 = A - X1 *)
  transitivity (A + - B + (B + - X2) + - (A + - X1)); [ring|]. rewrite K1. ring.
Qed.

(* T_ab = sum_k a†_{k a} a_{k b}:  S+ = T_{alpha beta},  S- = T_{beta alpha},  N_alpha = T_{alpha alpha},  N_beta = T_{beta beta} *)
Definition T (a b : bool) (norb : nat) : poly R :=
  flat_map (fun k => [(rI, [so norb a k true; so norb b k false])]) (seq 0 norb).

Lemma coeff_T a b norb (W : vec R) e :
  coeff (act_poly (T a b norb) W) e
  = sumf (seq 0 norb) (fun k => rI * coeff (act_string [so norb a k true; so norb b k false] W) e).
Proof.
  unfold T. rewrite (act_poly_flat_map' R rmul ropp), (coeff_flat_map_sum R rO rI radd rmul rsub ropp Rth).
  apply (DvecThm.sumf_ext R rO radd). intros k _.
  rewrite (coeff_act_poly R rO rI radd rmul rsub ropp Rth). cbn [fold_right fst snd]. ring.
Qed.

Lemma coeff_E norb i j (W : vec R) e :
  coeff (act_poly (E R rI norb i j) W) e
  = sumf [false; true] (fun sg => rI * coeff (act_string [so norb sg i true; so norb sg j false] W) e).
Proof.
  unfold E, TableThm.one_body_ij. rewrite (coeff_act_poly R rO rI radd rmul rsub ropp Rth).
  cbn [fold_right fst snd DvecThm.sumf]. unfold so. ring.
Qed.

(* picking one spin out of the sum over both *)
Lemma pick_spin (a : bool) (F : bool -> R) :
  sumf [false; true] (fun sg => if Bool.eqb sg a then F sg else rO) = F a.
Proof. destruct a; cbn [DvecThm.sumf fold_right Bool.eqb]; ring. Qed.

Theorem comm_E_T a b norb i j (V : vec R) d : i < norb -> j < norb -> wide (norb + norb) V ->
  coeff (act_poly (E R rI norb i j) (act_poly (T a b norb) V)) d
  = coeff (act_poly (T a b norb) (act_poly (E R rI norb i j) V)) d.
Proof.
  intros Hi Hj Hw. set (N := seq 0 norb).
  assert (L : coeff (act_poly (E R rI norb i j) (act_poly (T a b norb) V)) d
    = sumf [false; true] (fun sg => sumf N (fun k =>
        coeff (act_string ([so norb sg i true; so norb sg j false] ++ [so norb a k true; so norb b k false]) V) d))).
  { rewrite coeff_E. apply (DvecThm.sumf_ext R rO radd). intros sg _.
    rewrite (act_string_combination R rO rI radd rmul rsub ropp Rth _ N (fun _ => rI)
               (fun k => act_string [so norb a k true; so norb b k false] V) (act_poly (T a b norb) V) (coeff_T a b norb V) d).
    rewrite <- (DvecThm.sumf_scal R rO rI radd rmul rsub ropp Rth). apply (DvecThm.sumf_ext R rO radd). intros k _.
    rewrite (act_string_app R rO rI radd rmul rsub ropp Rth). ring. }
  assert (Rr : coeff (act_poly (T a b norb) (act_poly (E R rI norb i j) V)) d
    = sumf [false; true] (fun sg => sumf N (fun k =>
        coeff (act_string ([so norb a k true; so norb b k false] ++ [so norb sg i true; so norb sg j false]) V) d))).
  { rewrite coeff_T. rewrite (DvecThm.sumf_swap R rO rI radd rmul rsub ropp Rth).
    apply (DvecThm.sumf_ext R rO radd). intros k _.
    rewrite (act_string_combination R rO rI radd rmul rsub ropp Rth _ [false; true] (fun _ => rI)
               (fun sg => act_string [so norb sg i true; so norb sg j false] V) (act_poly (E R rI norb i j) V) (coeff_E norb i j V) d).
    cbn [DvecThm.sumf fold_right]. rewrite !(act_string_app R rO rI radd rmul rsub ropp Rth). ring. }
  rewrite L, Rr. clear L Rr.
  assert (D : forall sg k, In k N ->
     coeff (act_string ([so norb sg i true; so norb sg j false] ++ [so norb a k true; so norb b k false]) V) d
     = coeff (act_string ([so norb a k true; so norb b k false] ++ [so norb sg i true; so norb sg j false]) V) d
       + ((if Bool.eqb sg a then (if Nat.eqb j k then rI else rO) * coeff (act_string [so norb sg i true; so norb b k false] V) d else rO)
          + - (if Bool.eqb sg b then (if Nat.eqb i k then rI else rO) * coeff (act_string [so norb a k true; so norb sg j false] V) d else rO))).
  { intros sg k Hk. apply in_seq in Hk. cbn [app]. unfold so.
    pose proof (comm_basic (pos2 norb sg i) (pos2 norb sg j) (pos2 norb a k) (pos2 norb b k) (norb + norb) V d
                  ltac:(apply pos2_lt; lia) ltac:(apply pos2_lt; lia) Hw) as C.
    rewrite (pos2_eq norb sg j a k) in C by lia. rewrite (pos2_eq norb b k sg i) in C by lia.
    transitivity (coeff (act_string [mkop (pos2 norb a k) true; mkop (pos2 norb b k) false; mkop (pos2 norb sg i) true; mkop (pos2 norb sg j) false] V) d
                  + (coeff (act_string [mkop (pos2 norb sg i) true; mkop (pos2 norb sg j) false; mkop (pos2 norb a k) true; mkop (pos2 norb b k) false] V) d
                     + - coeff (act_string [mkop (pos2 norb a k) true; mkop (pos2 norb b k) false; mkop (pos2 norb sg i) true; mkop (pos2 norb sg j) false] V) d)); [ring|].
    rewrite C. rewrite (Nat.eqb_sym k i).
    destruct sg, a, b; cbn [Bool.eqb andb]; destruct (Nat.eqb j k), (Nat.eqb i k); ring. }
  rewrite (DvecThm.sumf_ext R rO radd [false; true] _ (fun sg => sumf N (fun k =>
     coeff (act_string ([so norb a k true; so norb b k false] ++ [so norb sg i true; so norb sg j false]) V) d
     + ((if Bool.eqb sg a then (if Nat.eqb j k then rI else rO) * coeff (act_string [so norb sg i true; so norb b k false] V) d else rO)
        + - (if Bool.eqb sg b then (if Nat.eqb i k then rI else rO) * coeff (act_string [so norb a k true; so norb sg j false] V) d else rO)))))
    by (intros sg _; apply (DvecThm.sumf_ext R rO radd); intros k Hk; apply D; exact Hk).
  (* split off the two correction sums and evaluate them *)
  rewrite (DvecThm.sumf_ext R rO radd [false; true] _ (fun sg =>
      sumf N (fun k => coeff (act_string ([so norb a k true; so norb b k false] ++ [so norb sg i true; so norb sg j false]) V) d)
      + ((if Bool.eqb sg a then coeff (act_string [so norb sg i true; so norb b j false] V) d else rO)
         + - (if Bool.eqb sg b then coeff (act_string [so norb a i true; so norb sg j false] V) d else rO)))).
  - rewrite (DvecThm.sumf_add R rO rI radd rmul rsub ropp Rth), (DvecThm.sumf_add R rO rI radd rmul rsub ropp Rth).
    rewrite (pick_spin a (fun sg => coeff (act_string [so norb sg i true; so norb b j false] V) d)).
    rewrite <- (pick_spin b (fun sg => coeff (act_string [so norb a i true; so norb sg j false] V) d)).
    rewrite (DvecThm.sumf_opp R rO rI radd rmul rsub ropp Rth). ring.
  - intros sg _. rewrite (DvecThm.sumf_add R rO rI radd rmul rsub ropp Rth), (DvecThm.sumf_add R rO rI radd rmul rsub ropp Rth). f_equal. f_equal.
    + destruct (Bool.eqb sg a); [|apply (DvecThm.sumf_zero R rO rI radd rmul rsub ropp Rth)].
      unfold N. apply (sumf_delta R rO rI radd rmul rsub ropp Rth norb j (fun k => coeff (act_string [so norb sg i true; so norb b k false] V) d) Hj).
    + rewrite (DvecThm.sumf_opp R rO rI radd rmul rsub ropp Rth). f_equal.
      destruct (Bool.eqb sg b); [|apply (DvecThm.sumf_zero R rO rI radd rmul rsub ropp Rth)].
      unfold N. apply (sumf_delta R rO rI radd rmul rsub ropp Rth norb i (fun k => coeff (act_string [so norb a k true; so norb sg j false] V) d) Hi).
Qed.

Definition Splus := T false true.
Theorem comm_E_Splus norb i j (V : vec R) d : i < norb -> j < norb -> wide (norb + norb) V ->
  coeff (act_poly (E R rI norb i j) (act_poly (Splus norb) V)) d
  = coeff (act_poly (Splus norb) (act_poly (E R rI norb i j) V)) d.
Proof. apply comm_E_T. Qed.
(* ---- from the generators to the total spin: 4 S^2 = 4 S- S+ + 2 (2 S_z) + (2 S_z)^2,  2 S_z = N_alpha - N_beta *)
Notation vscale := (vscale R rmul).
Notation coeq := (Conserve.coeq R rO radd).

Lemma wide_act_poly p n (V : vec R) : wide n V -> wide n (act_poly p V).
Proof.
  intros Hw e c Hin. unfold Fock.act_poly in Hin. apply in_flat_map in Hin. destruct Hin as [[c0 ops] [_ Hin]].
  cbn [fst snd] in Hin. unfold Fock.vscale in Hin. apply in_map_iff in Hin. destruct Hin as [[e1 c1] [E1 Hin]].
  inversion E1; subst. exact (wide_act_string R ropp ops n V Hw e c1 Hin).
Qed.

Definition commutes (p q : poly R) (n : nat) : Prop :=
  forall V, wide n V -> coeq (act_poly p (act_poly q V)) (act_poly q (act_poly p V)).

Definition pneg (q : poly R) : poly R := map (fun t => (- fst t, snd t)) q.

Lemma coeff_pneg q V d : coeff (act_poly (pneg q) V) d = - coeff (act_poly q V) d.
Proof.
  rewrite !(coeff_act_poly R rO rI radd rmul rsub ropp Rth). unfold pneg.
  induction q as [|[c ops] q IH]; cbn [map fold_right fst snd]; [ring|]. rewrite IH. ring.
Qed.

Lemma commutes_app p q1 q2 n : commutes p q1 n -> commutes p q2 n -> commutes p (q1 ++ q2) n.
Proof.
  intros C1 C2 V Hw d.
  rewrite (act_poly_proper R rO rI radd rmul rsub ropp Rth p (act_poly (q1 ++ q2) V) (act_poly q1 V ++ act_poly q2 V))
    by (intros e; rewrite (act_poly_app R rO rI radd rmul rsub ropp Rth), (coeff_app R rO rI radd rmul rsub ropp Rth); reflexivity).
  rewrite (Conserve.act_poly_app_vec R rO rI radd rmul rsub ropp Rth p _ _ d).
  rewrite (coeff_app R rO rI radd rmul rsub ropp Rth), (C1 V Hw d), (C2 V Hw d).
  rewrite (act_poly_app R rO rI radd rmul rsub ropp Rth). reflexivity.
Qed.

Lemma commutes_pneg p q n : commutes p q n -> commutes p (pneg q) n.
Proof.
  intros C V Hw d.
  rewrite (act_poly_proper R rO rI radd rmul rsub ropp Rth p (act_poly (pneg q) V) (vscale (- rI) (act_poly q V)))
    by (intros e; rewrite coeff_pneg, (coeff_vscale R rO rI radd rmul rsub ropp Rth); ring).
  rewrite (Conserve.act_poly_vscale R rO rI radd rmul rsub ropp Rth p (- rI) (act_poly q V) d).
  rewrite (coeff_vscale R rO rI radd rmul rsub ropp Rth), (C V Hw d), coeff_pneg. ring.
Qed.

Lemma commutes_chain p q1 q2 n : commutes p q1 n -> commutes p q2 n ->
  forall V, wide n V -> coeq (act_poly p (act_poly q1 (act_poly q2 V))) (act_poly q1 (act_poly q2 (act_poly p V))).
Proof.
  intros C1 C2 V Hw d. rewrite (C1 (act_poly q2 V) (wide_act_poly q2 n V Hw) d).
  apply (act_poly_proper R rO rI radd rmul rsub ropp Rth q1). intros e. apply (C2 V Hw e).
Qed.

Definition TwoSz (norb : nat) : poly R := T false false norb ++ pneg (T true true norb).
Definition Sminus := T true false.

(* 4 S^2 applied to a vector *)
Definition four_S2 (norb : nat) (V : vec R) : vec R :=
  vscale (rI + rI + rI + rI) (act_poly (Sminus norb) (act_poly (Splus norb) V))
  ++ vscale (rI + rI) (act_poly (TwoSz norb) V)
  ++ act_poly (TwoSz norb) (act_poly (TwoSz norb) V).

Lemma commutes_E_T a b norb i j : i < norb -> j < norb -> commutes (E R rI norb i j) (T a b norb) (norb + norb).
Proof. intros Hi Hj V Hw d. apply comm_E_T; assumption. Qed.

Lemma commutes_E_TwoSz norb i j : i < norb -> j < norb -> commutes (E R rI norb i j) (TwoSz norb) (norb + norb).
Proof. intros Hi Hj. apply commutes_app; [|apply commutes_pneg]; apply commutes_E_T; assumption. Qed.

Theorem E_commutes_with_S2 norb i j (V : vec R) : i < norb -> j < norb -> wide (norb + norb) V ->
  coeq (act_poly (E R rI norb i j) (four_S2 norb V)) (four_S2 norb (act_poly (E R rI norb i j) V)).
Proof.
  intros Hi Hj Hw d. unfold four_S2.
  rewrite (Conserve.act_poly_app_vec R rO rI radd rmul rsub ropp Rth _ _ _ d), (coeff_app R rO rI radd rmul rsub ropp Rth).
  rewrite (Conserve.act_poly_app_vec R rO rI radd rmul rsub ropp Rth _ _ _ d), (coeff_app R rO rI radd rmul rsub ropp Rth).
  rewrite !(Conserve.act_poly_vscale R rO rI radd rmul rsub ropp Rth _ _ _ d).
  rewrite !(coeff_app R rO rI radd rmul rsub ropp Rth), !(coeff_vscale R rO rI radd rmul rsub ropp Rth).
  unfold Sminus, Splus.
  rewrite (commutes_chain _ _ _ _ (commutes_E_T true false norb i j Hi Hj) (commutes_E_T false true norb i j Hi Hj) V Hw d).
  rewrite (commutes_E_TwoSz norb i j Hi Hj V Hw d).
  rewrite (commutes_chain _ _ _ _ (commutes_E_TwoSz norb i j Hi Hj) (commutes_E_TwoSz norb i j Hi Hj) V Hw d).
  reflexivity.
Qed.
(* ---- the whole spin-free Hamiltonian (DvecThm.restricted_poly) commutes with 4 S^2 *)
Lemma sumf_flat_map' {A B} (g : A -> list B) (l : list A) (f : B -> R) :
  sumf (flat_map g l) f = sumf l (fun x => sumf (g x) f).
Proof.
  induction l as [|x l IH]; [reflexivity|]. cbn [flat_map].
  assert (App : forall l1 l2, sumf (l1 ++ l2) f = sumf l1 f + sumf l2 f).
  { intros l1 l2. unfold DvecThm.sumf. induction l1 as [|y l1 IH1]; cbn [app fold_right]; [ring|rewrite IH1; ring]. }
  rewrite App, IH. reflexivity.
Qed.

(* H W as a linear combination of E W and E (E W) *)
Definition H_terms (norb : nat) (h1 : nat -> nat -> R) (h2 : nat -> nat -> nat -> nat -> R) (W : vec R) : list (R * vec R) :=
  flat_map (fun i => flat_map (fun l => [(h1 i l, act_poly (E R rI norb i l) W)]) (seq 0 norb)) (seq 0 norb)
  ++ flat_map (fun i => flat_map (fun k => flat_map (fun j => flat_map (fun l =>
       [(h2 i j k l * (if Nat.eqb k j then rI else rO), act_poly (E R rI norb i l) W);
        (- h2 i j k l, act_poly (E R rI norb i k) (act_poly (E R rI norb j l) W))])
       (seq 0 norb)) (seq 0 norb)) (seq 0 norb)) (seq 0 norb).

Lemma H_as_terms norb h1 h2 (W : vec R) e : wide (norb + norb) W ->
  coeff (act_poly (restricted_poly R norb h1 h2) W) e
  = sumf (H_terms norb h1 h2 W) (fun x => fst x * coeff (snd x) e).
Proof.
  intros Hw. unfold restricted_poly, H_terms.
  rewrite (act_poly_app R rO rI radd rmul rsub ropp Rth).
  assert (App : forall (l1 l2 : list (R * vec R)) f, sumf (l1 ++ l2) f = sumf l1 f + sumf l2 f).
  { intros l1 l2 f. unfold DvecThm.sumf. induction l1 as [|y l1 IH1]; cbn [app fold_right]; [ring|rewrite IH1; ring]. }
  rewrite App. f_equal.
  - rewrite (coeff_one_body_poly R rO rI radd rmul rsub ropp Rth). rewrite sumf_flat_map'.
    apply (DvecThm.sumf_ext R rO radd). intros i _. rewrite sumf_flat_map'.
    apply (DvecThm.sumf_ext R rO radd). intros l _. cbn [DvecThm.sumf fold_right fst snd]. unfold cE. ring.
  - rewrite (act_poly_flat_map' R rmul ropp), (coeff_flat_map_sum R rO rI radd rmul rsub ropp Rth), sumf_flat_map'.
    apply (DvecThm.sumf_ext R rO radd). intros i _.
    rewrite (act_poly_flat_map' R rmul ropp), (coeff_flat_map_sum R rO rI radd rmul rsub ropp Rth), sumf_flat_map'.
    apply (DvecThm.sumf_ext R rO radd). intros k Hk.
    rewrite (act_poly_flat_map' R rmul ropp), (coeff_flat_map_sum R rO rI radd rmul rsub ropp Rth), sumf_flat_map'.
    apply (DvecThm.sumf_ext R rO radd). intros j Hj.
    rewrite (act_poly_flat_map' R rmul ropp), (coeff_flat_map_sum R rO rI radd rmul rsub ropp Rth), sumf_flat_map'.
    apply (DvecThm.sumf_ext R rO radd). intros l _.
    apply in_seq in Hk. apply in_seq in Hj.
    rewrite (two_body_fold R rO rI radd rmul rsub ropp Rth norb (h2 i j k l) i j k l W e ltac:(lia) ltac:(lia) Hw).
    cbn [DvecThm.sumf fold_right fst snd]. unfold cE. destruct (Nat.eqb k j); ring.
Qed.

(* 4 S^2 is linear and respects coefficient-wise equality *)
Lemma four_S2_combination {A} norb (L : list A) (c : A -> R) (U : A -> vec R) (W : vec R) :
  (forall e, coeff W e = sumf L (fun x => c x * coeff (U x) e)) ->
  forall d, coeff (four_S2 norb W) d = sumf L (fun x => c x * coeff (four_S2 norb (U x)) d).
Proof.
  intros H d. unfold four_S2. rewrite !(coeff_app R rO rI radd rmul rsub ropp Rth), !(coeff_vscale R rO rI radd rmul rsub ropp Rth).
  pose proof (act_poly_combination R rO rI radd rmul rsub ropp Rth (Splus norb) L c U W H) as C1.
  pose proof (act_poly_combination R rO rI radd rmul rsub ropp Rth (Sminus norb) L c (fun x => act_poly (Splus norb) (U x)) (act_poly (Splus norb) W) C1 d) as C2.
  pose proof (act_poly_combination R rO rI radd rmul rsub ropp Rth (TwoSz norb) L c U W H) as C3.
  pose proof (act_poly_combination R rO rI radd rmul rsub ropp Rth (TwoSz norb) L c (fun x => act_poly (TwoSz norb) (U x)) (act_poly (TwoSz norb) W) C3 d) as C4.
  rewrite C2, (C3 d), C4.
  rewrite <- !(DvecThm.sumf_scal R rO rI radd rmul rsub ropp Rth), <- !(DvecThm.sumf_add R rO rI radd rmul rsub ropp Rth).
  apply (DvecThm.sumf_ext R rO radd). intros x _.
  rewrite !(coeff_app R rO rI radd rmul rsub ropp Rth), !(coeff_vscale R rO rI radd rmul rsub ropp Rth). ring.
Qed.

Lemma four_S2_proper norb (U W : vec R) : coeq U W -> coeq (four_S2 norb U) (four_S2 norb W).
Proof.
  intros H d.
  rewrite (four_S2_combination norb [tt] (fun _ => rI) (fun _ => W) U) by (intros e; cbn [DvecThm.sumf fold_right]; rewrite (H e); ring).
  cbn [DvecThm.sumf fold_right]. ring.
Qed.

Lemma wide_four_S2 norb (V : vec R) : wide (norb + norb) V -> wide (norb + norb) (four_S2 norb V).
Proof.
  intros Hw. unfold four_S2.
  assert (Wv : forall c U, wide (norb + norb) U -> wide (norb + norb) (vscale c U)).
  { intros c U HU e x Hin. unfold Fock.vscale in Hin. apply in_map_iff in Hin. destruct Hin as [[e1 c1] [E1 Hin]].
    inversion E1; subst. exact (HU e c1 Hin). }
  assert (Wa : forall U1 U2, wide (norb + norb) U1 -> wide (norb + norb) U2 -> wide (norb + norb) (U1 ++ U2)).
  { intros U1 U2 H1 H2 e x Hin. apply in_app_or in Hin. destruct Hin; [eapply H1|eapply H2]; eauto. }
  apply Wa; [apply Wv; repeat apply wide_act_poly; exact Hw|].
  apply Wa; [apply Wv; apply wide_act_poly; exact Hw|repeat apply wide_act_poly; exact Hw].
Qed.

Theorem spinfree_hamiltonian_commutes_with_S2 norb h1 h2 (V : vec R) : wide (norb + norb) V ->
  coeq (act_poly (restricted_poly R norb h1 h2) (four_S2 norb V))
       (four_S2 norb (act_poly (restricted_poly R norb h1 h2) V)).
Proof.
  intros Hw d.
  rewrite (H_as_terms norb h1 h2 (four_S2 norb V) d (wide_four_S2 norb V Hw)).
  rewrite (four_S2_combination norb (H_terms norb h1 h2 V) fst snd (act_poly (restricted_poly R norb h1 h2) V)
             (fun e => H_as_terms norb h1 h2 V e Hw) d).
  unfold H_terms.
  assert (App : forall (l1 l2 : list (R * vec R)) f, sumf (l1 ++ l2) f = sumf l1 f + sumf l2 f).
  { intros l1 l2 f. unfold DvecThm.sumf. induction l1 as [|y l1 IH1]; cbn [app fold_right]; [ring|rewrite IH1; ring]. }
  rewrite !App. f_equal.
  - rewrite !sumf_flat_map'. apply (DvecThm.sumf_ext R rO radd). intros i Hi. rewrite !sumf_flat_map'.
    apply (DvecThm.sumf_ext R rO radd). intros l Hl. apply in_seq in Hi. apply in_seq in Hl.
    cbn [DvecThm.sumf fold_right fst snd]. rewrite (E_commutes_with_S2 norb i l V ltac:(lia) ltac:(lia) Hw d). reflexivity.
  - rewrite !sumf_flat_map'. apply (DvecThm.sumf_ext R rO radd). intros i Hi. rewrite !sumf_flat_map'.
    apply (DvecThm.sumf_ext R rO radd). intros k Hk. rewrite !sumf_flat_map'.
    apply (DvecThm.sumf_ext R rO radd). intros j Hj. rewrite !sumf_flat_map'.
    apply (DvecThm.sumf_ext R rO radd). intros l Hl.
    apply in_seq in Hi. apply in_seq in Hk. apply in_seq in Hj. apply in_seq in Hl.
    cbn [DvecThm.sumf fold_right fst snd].
    rewrite (E_commutes_with_S2 norb i l V ltac:(lia) ltac:(lia) Hw d).
    (* E_ik E_jl S2 V = E_ik S2 E_jl V = S2 E_ik E_jl V *)
    rewrite (act_poly_proper R rO rI radd rmul rsub ropp Rth (E R rI norb i k) _ _
               (E_commutes_with_S2 norb j l V ltac:(lia) ltac:(lia) Hw) d).
    rewrite (E_commutes_with_S2 norb i k (act_poly (E R rI norb j l) V) ltac:(lia) ltac:(lia) (wide_act_poly _ _ _ Hw) d).
    reflexivity.
Qed.
(* ---- conservation of the total spin by every polynomial propagator of the spin-free Hamiltonian *)
Definition S2_eigen norb (lam : R) (v : vec R) : Prop := coeq (four_S2 norb v) (vscale lam v).

Lemma wide_pow_act norb p m (v : vec R) : wide (norb + norb) v -> wide (norb + norb) (pow_act R rmul ropp p m v).
Proof. intros Hw. induction m as [|m IH]; [exact Hw|]. cbn [pow_act]. apply wide_act_poly. exact IH. Qed.

Lemma S2_eigen_step norb h1 h2 lam (v : vec R) : wide (norb + norb) v ->
  S2_eigen norb lam v -> S2_eigen norb lam (act_poly (restricted_poly R norb h1 h2) v).
Proof.
  intros Hw Ev. unfold S2_eigen in *.
  eapply (coeq_trans R rO radd); [intros d; symmetry; apply (spinfree_hamiltonian_commutes_with_S2 norb h1 h2 v Hw d)|].
  eapply (coeq_trans R rO radd); [|apply (act_poly_vscale R rO rI radd rmul rsub ropp Rth)].
  intros d. apply (act_poly_proper R rO rI radd rmul rsub ropp Rth). exact Ev.
Qed.

Lemma S2_eigen_pow norb h1 h2 lam m (v : vec R) : wide (norb + norb) v ->
  S2_eigen norb lam v -> S2_eigen norb lam (pow_act R rmul ropp (restricted_poly R norb h1 h2) m v).
Proof.
  intros Hw Ev. induction m as [|m IH]; [exact Ev|]. cbn [pow_act].
  apply S2_eigen_step; [apply wide_pow_act; exact Hw|exact IH].
Qed.

Lemma coeff_lincomb p cs (v : vec R) e :
  coeff (lincomb R rmul ropp p cs v) e = sumf cs (fun cm => fst cm * coeff (pow_act R rmul ropp p (snd cm) v) e).
Proof.
  unfold lincomb. induction cs as [|[c m] cs IH]; [reflexivity|].
  cbn [flat_map DvecThm.sumf fold_right fst snd]. rewrite (coeff_app R rO rI radd rmul rsub ropp Rth), (coeff_vscale R rO rI radd rmul rsub ropp Rth).
  unfold DvecThm.sumf in IH. rewrite IH. reflexivity.
Qed.

Theorem spinfree_propagation_conserves_S2 norb h1 h2 lam cs (v : vec R) : wide (norb + norb) v ->
  S2_eigen norb lam v -> S2_eigen norb lam (lincomb R rmul ropp (restricted_poly R norb h1 h2) cs v).
Proof.
  intros Hw Ev d. unfold S2_eigen in *.
  rewrite (four_S2_combination norb cs fst (fun cm => pow_act R rmul ropp (restricted_poly R norb h1 h2) (snd cm) v) _
             (coeff_lincomb _ cs v) d).
  rewrite (coeff_vscale R rO rI radd rmul rsub ropp Rth), coeff_lincomb.
  rewrite <- (DvecThm.sumf_scal R rO rI radd rmul rsub ropp Rth).
  apply (DvecThm.sumf_ext R rO radd). intros [c m] _. cbn [fst snd].
  rewrite (S2_eigen_pow norb h1 h2 lam m v Hw Ev d), (coeff_vscale R rO rI radd rmul rsub ropp Rth). ring.
Qed.
End Comm.

From Coq Require Import ZArith.
(* non-vacuity: the M_s = 0 component of the two-orbital triplet is an eigenvector of 4 S^2 with eigenvalue 4 S(S+1) = 8 *)
Definition triplet0 : vec Z := [([false;true;true;false],1%Z);([true;false;false;true],(-1)%Z)].
Example triplet0_is_S2_eigenvector :
  S2_eigen Z 0%Z 1%Z Z.add Z.mul Z.opp 2 8%Z triplet0 /\ wide Z (2 + 2) triplet0.
Proof.
  split.
  - intros d. set (w := four_S2 _ _ _ _ _ _ _). vm_compute in w. subst w.
    set (u := vscale _ _ _ _). vm_compute in u. subst u. cbn [coeff].
    destruct (det_eqb [false;true;true;false] d), (det_eqb [true;false;false;true] d); reflexivity.
  - intros e c [H|[H|[]]]; inversion H; reflexivity.
Qed.
