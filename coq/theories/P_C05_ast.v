(* P_C05_ast.v — C05 (and the shift-count clause of C13): the inline helpers of the CURRENT
   fqe/lib/bitstring.h, parsed into C syntax and evaluated with C semantics (CExpr.v), are defined
   (no out-of-range shift, no signed overflow) and correct for every 64-bit string and all positions. *)
From Coq Require Import NArith ZArith List Bool Arith Lia.
From FQE Require Import Bits GenBase CExpr Equiv_cexpr.
From FQE.gen Require Import Gen_bitstring_h_ast.
Import ListNotations.
Local Open Scope Z_scope.

Theorem C05_c_source_count_bits_between : forall s i j, 0 <= s < 2 ^ 64 -> 0 <= i < 64 -> 0 <= j < 64 -> i <> j ->
  cfun_eval c_ast_count_bits_between s [i; j] = Some (Z.of_nat (cnt_between (Z.to_N s) (Z.to_nat i) (Z.to_nat j))).
Proof. exact c_ast_count_bits_between_ok. Qed.
Print Assumptions C05_c_source_count_bits_between.

Theorem C05_c_source_count_bits_above : forall s i, 0 <= s < 2 ^ 64 -> 0 <= i < 64 ->
  cfun_eval c_ast_count_bits_above s [i] = Some (Z.of_nat (cnt_above64 (Z.to_N s) (Z.to_nat i))).
Proof. exact c_ast_count_bits_above_ok. Qed.
Print Assumptions C05_c_source_count_bits_above.

(* the abstract evaluator that carries the proof from a table over the positions to every string *)
Theorem C05_abstract_evaluation_sound : forall f args d m, afun f args = Some (d, m) ->
  forall s, 0 <= s < 2 ^ 64 -> cfun_eval f s args = Some (zpopcount (Z.land s (Z.shiftl m d))).
Proof. exact afun_sound. Qed.
Print Assumptions C05_abstract_evaluation_sound.

(* non-vacuity: a string with occupied positions on both sides of bit 32 *)
Example C05_c_source_example : cfun_eval c_ast_count_bits_between 0xF0000000F0 [2; 40] = Some 8.
Proof. vm_compute. reflexivity. Qed.
