(* P_C03.v — C03 (first stage): the RDM oracle is a matrix element of the proved
   Fock-space action; linearity of matrix elements in ket, conjugate-linearity in bra,
   and the adjoint identity <bra|P|ket> = conj <ket|P†|bra>. *)
From Coq Require Import NArith ZArith List Bool Arith Lia Ring.
From FQE Require Import Car Fock GaussZ Bits Denote Model ApplyThm Arith Rdm.
Import ListNotations.

(* m_matel is the inner product of bra with the action on ket *)
Lemma m_matel_spec norb ts x y :
  m_matel norb ts x y =
  fold_right (fun xe acc => gzadd (gzmul (gzconj (snd xe)) (gcoeff (gact_poly (poly_of norb ts) (vec_of norb y)) (det_of norb (fst (fst xe)) (snd (fst xe))))) acc) gz0 x.
Proof.
  unfold m_matel. induction x as [|[[a b] c] x IH]; simpl; [reflexivity|].
  rewrite IH. rewrite coeff_pull_spec. reflexivity.
Qed.

Theorem C03_matel_is_inner : forall norb ts x y,
  m_matel norb ts x y = ginner (vec_of norb x) (gact_poly (poly_of norb ts) (vec_of norb y)).
Proof.
  intros. rewrite m_matel_spec. unfold ginner, vec_of.
  induction x as [|[[a b] c] x IH]; simpl; [reflexivity|]. rewrite IH. reflexivity.
Qed.
Print Assumptions C03_matel_is_inner.

Theorem C03_adjoint : forall (p : poly gz) (x y : gv),
  ginner (gact_poly p x) y = ginner x (gact_poly (poly_adj gz gzconj p) y).
Proof.
  intros. unfold ginner, gact_poly.
  apply (inner_act_poly_adj gz gz0 gz1 gzadd gzmul gzsub gzopp gz_ring gzconj gzconj_mul gzconj_opp).
Qed.
Print Assumptions C03_adjoint.

Theorem C03_conj_symmetry : forall x y, v_vdot x y = gzconj (v_vdot y x).
Proof. exact vdot_conj_sym. Qed.
Print Assumptions C03_conj_symmetry.

Theorem C03_linear_in_ket :
  forall (p : poly gz) a (u v : gv) d,
  gcoeff (gact_poly p (vadd gz (vscale gz gzmul a u) v)) d =
  gzadd (gzmul a (gcoeff (gact_poly p u) d)) (gcoeff (gact_poly p v) d).
Proof. intros. apply (act_poly_linear gz gz0 gz1 gzadd gzmul gzsub gzopp gz_ring). Qed.
Print Assumptions C03_linear_in_ket.

(* non-vacuity: <n_0> on |alpha 0> of a 2-orbital system, spin-free 'i^ j' tensor *)
Example C03_rdm_example : m_rdm 2 true [true; false] [(1%N, 0%N, (1, 0)%Z)] [(1%N, 0%N, (1, 0)%Z)]
  = [(1, 0)%Z; (0, 0)%Z; (0, 0)%Z; (0, 0)%Z].
Proof. vm_compute. reflexivity. Qed.

(* every RDM tensor inherits the CAR: exchanging two adjacent creators (annihilators) of different spin
   orbitals anywhere in the pattern flips the sign of <bra| ... |ket> - any bra, ket, pattern, ring *)
From FQE Require Import Sort RdmThm.
Theorem C03_matel_antisymmetric_creators :
  forall (R : Type) (rO rI : R) (radd rmul rsub : R -> R -> R) (ropp : R -> R),
  ring_theory rO rI radd rmul rsub ropp eq ->
  forall (rconj : R -> R) (p q : nat) (a b : list lop) (bra ket : vec R), p <> q ->
  inner R rO radd rmul rconj bra (act_string R ropp (a ++ [mkop p true; mkop q true] ++ b) ket) =
  ropp (inner R rO radd rmul rconj bra (act_string R ropp (a ++ [mkop q true; mkop p true] ++ b) ket)).
Proof. exact matel_antisymmetric_creators. Qed.
Print Assumptions C03_matel_antisymmetric_creators.

Theorem C03_matel_antisymmetric_annihilators :
  forall (R : Type) (rO rI : R) (radd rmul rsub : R -> R -> R) (ropp : R -> R),
  ring_theory rO rI radd rmul rsub ropp eq ->
  forall (rconj : R -> R) (p q : nat) (a b : list lop) (bra ket : vec R), p <> q ->
  inner R rO radd rmul rconj bra (act_string R ropp (a ++ [mkop p false; mkop q false] ++ b) ket) =
  ropp (inner R rO radd rmul rconj bra (act_string R ropp (a ++ [mkop q false; mkop p false] ++ b) ket)).
Proof. exact matel_antisymmetric_annihilators. Qed.
Print Assumptions C03_matel_antisymmetric_annihilators.

(* Wick's theorem as wick.py's rewriting loop performs it (spin-orbital mode): the expansion of a pattern into
   normal-ordered patterns acts like the pattern itself - every pattern, every fuel, every ring, every bra and ket -
   so a tensor assembled from particle RDMs through it is the matrix element of the requested pattern; with fuel
   above the number of inversions every produced pattern is normal ordered (an n-particle RDM pattern). *)
From FQE Require Import Wick.
Theorem C03_wick_expansion_sound :
  forall (R : Type) (rO rI : R) (radd rmul rsub : R -> R -> R) (ropp : R -> R),
  ring_theory rO rI radd rmul rsub ropp eq ->
  forall (fuel : nat) (c : R) (s : list lop) (n : nat) (v : vec R) (d : det),
  below n s -> wide R n v ->
  coeff R rO radd (act_poly R rmul ropp (expand R ropp fuel c s) v) d = rmul c (coeff R rO radd (act_string R ropp s v) d).
Proof. exact expand_sound. Qed.
Print Assumptions C03_wick_expansion_sound.

Theorem C03_wick_matrix_element :
  forall (R : Type) (rO rI : R) (radd rmul rsub : R -> R -> R) (ropp : R -> R),
  ring_theory rO rI radd rmul rsub ropp eq ->
  forall (rconj : R -> R) (fuel : nat) (s : list lop) (n : nat) (bra ket : vec R),
  below n s -> wide R n ket ->
  inner R rO radd rmul rconj bra (act_poly R rmul ropp (expand R ropp fuel rI s) ket)
  = inner R rO radd rmul rconj bra (act_string R ropp s ket).
Proof. exact expand_matel. Qed.
Print Assumptions C03_wick_matrix_element.

Theorem C03_wick_expansion_normal_ordered :
  forall (R : Type) (ropp : R -> R) (fuel : nat) (c : R) (s : list lop),
  inversions s < fuel -> Forall (fun t => normal (snd t)) (expand R ropp fuel c s).
Proof. exact expand_normal. Qed.
Print Assumptions C03_wick_expansion_normal_ordered.

Theorem C03_normal_is_creators_then_annihilators :
  forall s, normal s -> exists a b, s = a ++ b /\ Forall (fun o => odag o = true) a /\ Forall (fun o => odag o = false) b.
Proof. exact normal_shape. Qed.
Print Assumptions C03_normal_is_creators_then_annihilators.

(* the spin-summed ("spinfree") mode of wick.py (SpinWick.v): patterns carry spin labels, their value is the sum over
   all spin assignments (a spin-free RDM entry); one rewriting step - swap with -1; contract equal orbitals: same label
   -> factor 2 and the label disappears, different labels -> the second label is renamed to the first - preserves the
   value; every orbital count, vector and commutative ring *)
From FQE Require Import SpinWick.
Theorem C03_spinfree_wick_step_sound :
  forall (R : Type) (rO rI : R) (radd rmul rsub : R -> R -> R) (ropp : R -> R),
  ring_theory rO rI radd rmul rsub ropp eq ->
  forall (norb : nat) (L : list nat) (pre : list sop) (p l q m : nat) (post : list sop) (V : vec R) (d : det),
  p < norb -> q < norb -> wide R (norb + norb) V -> NoDup L -> In l L -> In m L ->
  incl (labels (pre ++ post)) L ->
  (l = m -> ~ In l (labels (pre ++ post))) ->
  sval R rO radd ropp norb L (pre ++ [mksop p false l; mksop q true m] ++ post) V d
  = radd (ropp (sval R rO radd ropp norb L (pre ++ [mksop q true m; mksop p false l] ++ post) V d))
         (if Nat.eqb p q then
            if Nat.eqb l m then rmul (radd rI rI) (sval R rO radd ropp norb (remove Nat.eq_dec l L) (pre ++ post) V d)
            else sval R rO radd ropp norb (remove Nat.eq_dec m L) (map (relabel m l) (pre ++ post)) V d
          else rO).
Proof. exact sstep_sound. Qed.
Print Assumptions C03_spinfree_wick_step_sound.

(* the order in which the labels are summed is immaterial, an unused label contributes the factor 2 *)
Theorem C03_spinfree_unused_label :
  forall (R : Type) (rO rI : R) (radd rmul rsub : R -> R -> R) (ropp : R -> R),
  ring_theory rO rI radd rmul rsub ropp eq ->
  forall norb l L s (V : vec R) d, ~ In l (labels s) ->
  sval R rO radd ropp norb (l :: L) s V d = rmul (radd rI rI) (sval R rO radd ropp norb L s V d).
Proof. exact sval_unused_label. Qed.
Print Assumptions C03_spinfree_unused_label.

(* ... and iterated (SpinWickExp.v): the full spin-summed expansion, term by term with its factor and remaining label set,
   has the value of the original pattern, for every well-formed pattern (each label on at most one creator and at most
   one annihilator, as wick.py enforces), every fuel, orbital count, vector and ring *)
From FQE Require Import SpinWickExp.
Theorem C03_spinfree_wick_expansion_sound :
  forall (R : Type) (rO rI : R) (radd rmul rsub : R -> R -> R) (ropp : R -> R),
  ring_theory rO rI radd rmul rsub ropp eq ->
  forall (norb fuel : nat) (c : R) (L : list nat) (s : list sop) (V : vec R) (d : det),
  wf norb L s -> wide R (norb + norb) V ->
  tsum R rO radd rmul ropp norb (sexpand R rI radd rmul ropp fuel c L s) V d
  = rmul c (sval R rO radd ropp norb L s V d).
Proof. exact sexpand_sound. Qed.
Print Assumptions C03_spinfree_wick_expansion_sound.

(* non-vacuity: the spin-free pattern 'i j^' at i = j (one label): a_i a†_i -> - a†_i a_i + 2 *)
From Coq Require Import ZArith.
Example C03_spinfree_example :
  sexpand Z 1%Z Z.add Z.mul Z.opp 3 1%Z [0] [mksop 0 false 0; mksop 0 true 0]
  = [((-1)%Z, [0], [mksop 0 true 0; mksop 0 false 0]); (2%Z, [], [])].
Proof. vm_compute. reflexivity. Qed.

(* the final spin sort of wick.py exchanges adjacent creators (or adjacent annihilators): each exchange flips the sign of
   the spin-summed value - also for operators on the same spin orbital, where both orders vanish *)
Theorem C03_spinfree_same_kind_swap :
  forall (R : Type) (rO rI : R) (radd rmul rsub : R -> R -> R) (ropp : R -> R),
  ring_theory rO rI radd rmul rsub ropp eq ->
  forall norb L pre x y post (V : vec R) d, sdag x = sdag y ->
  sval R rO radd ropp norb L (pre ++ [x; y] ++ post) V d = ropp (sval R rO radd ropp norb L (pre ++ [y; x] ++ post) V d).
Proof. exact sval_swap_same_kind. Qed.
Print Assumptions C03_spinfree_same_kind_swap.

(* the D-vector route of the implementation's RDM kernels (RdmKH.v): with D-vectors D_jl = E_jl|ket>, D'_ki = E_ki|bra>,
     <bra| sum_{rho,eta} a†_{i rho} a†_{j eta} a_{k rho} a_{l eta} |ket> = delta_kj <bra|E_il|ket> - <D'_ki | D_jl>
   for every orbital count, index tuple, bra and ket, over any commutative ring with an involutive conjugation; the 1-RDM
   contraction of the bra with the table push-forward is the matrix element of the one-body operator *)
From Coq Require Import Ring.
From FQE Require Import TableThm DvecThm RdmKH.
Theorem C03_two_rdm_by_dvectors :
  forall (R : Type) (rO rI : R) (radd rmul rsub : R -> R -> R) (ropp : R -> R),
  ring_theory rO rI radd rmul rsub ropp eq ->
  forall rconj : R -> R,
  (forall a b, rconj (rmul a b) = rmul (rconj a) (rconj b)) -> (forall a, rconj (ropp a) = ropp (rconj a)) ->
  (forall a, rconj (rconj a) = a) ->
  forall norb i j k l (x y : vec R), j < norb -> k < norb -> wide R (norb + norb) y ->
  inner R rO radd rmul rconj x (act_poly R rmul ropp (two_body_terms R norb rI i j k l) y)
  = radd (if Nat.eqb k j then inner R rO radd rmul rconj x (act_poly R rmul ropp (E R rI norb i l) y) else rO)
         (ropp (inner R rO radd rmul rconj (act_poly R rmul ropp (E R rI norb k i) x) (act_poly R rmul ropp (E R rI norb j l) y))).
Proof. exact rdm2_by_dvectors. Qed.
Print Assumptions C03_two_rdm_by_dvectors.

Theorem C03_one_rdm_by_tables :
  forall (R : Type) (rO rI : R) (radd rmul rsub : R -> R -> R) (ropp : R -> R),
  ring_theory rO rI radd rmul rsub ropp eq ->
  forall (rconj : R -> R) norb (h : nat -> nat -> R) (x : vec R) (v : svec R),
  inner R rO radd rmul rconj x (vecof R norb (apply1 R rmul ropp norb h v))
  = inner R rO radd rmul rconj x (act_poly R rmul ropp (one_body_poly R norb h) (vecof R norb v)).
Proof. exact rdm1_by_tables. Qed.
Print Assumptions C03_one_rdm_by_tables.
