(* GenBase.v — vocabulary of the generated files (uint64 wrap, popcount on Z) and
   the generic lemmas that turn a finite mask table into a statement for all
   64-bit strings. *)
From Coq Require Import NArith ZArith List Bool Arith Lia.
From FQE Require Import Bits.
Import ListNotations.
Local Open Scope Z_scope.

Definition u64 (x : Z) : Z := x mod 2 ^ 64.
Definition zpopcount (z : Z) : Z := Z.of_nat (popcount (Z.to_N z)).

Definition idx64 : list Z := map Z.of_nat (seq 0 64).
Lemma in_idx64 i : 0 <= i < 64 -> In i idx64.
Proof.
  intros H. replace i with (Z.of_nat (Z.to_nat i)) by lia. apply in_map. apply in_seq. lia.
Qed.

Definition tab1 (f g : Z -> Z) : bool := forallb (fun i => Z.eqb (f i) (g i)) idx64.
Definition tab2 (f g : Z -> Z -> Z) : bool :=
  forallb (fun i => forallb (fun j => Z.eqb (f i j) (g i j)) idx64) idx64.

Lemma tab1_ok f g : tab1 f g = true -> forall i, 0 <= i < 64 -> f i = g i.
Proof.
  unfold tab1. rewrite forallb_forall. intros H i Hi. apply Z.eqb_eq. apply H. apply in_idx64; assumption.
Qed.
Lemma tab2_ok f g : tab2 f g = true -> forall i j, 0 <= i < 64 -> 0 <= j < 64 -> f i j = g i j.
Proof.
  unfold tab2. rewrite forallb_forall. intros H i j Hi Hj.
  specialize (H i (in_idx64 i Hi)). rewrite forallb_forall in H.
  apply Z.eqb_eq. apply H. apply in_idx64; assumption.
Qed.

(* off-diagonal variant: "between i and j" is defined for two distinct positions *)
Definition tab2d (f g : Z -> Z -> Z) : bool :=
  forallb (fun i => forallb (fun j => if Z.eqb i j then true else Z.eqb (f i j) (g i j)) idx64) idx64.
Lemma tab2d_ok f g : tab2d f g = true -> forall i j, 0 <= i < 64 -> 0 <= j < 64 -> i <> j -> f i j = g i j.
Proof.
  unfold tab2d. rewrite forallb_forall. intros H i j Hi Hj Hne.
  specialize (H i (in_idx64 i Hi)). rewrite forallb_forall in H.
  specialize (H j (in_idx64 j Hj)). destruct (Z.eqb_spec i j); [contradiction|]. apply Z.eqb_eq. assumption.
Qed.

Definition ones64 : Z := Z.ones 64.

Lemma land_ones64 s : 0 <= s < 2 ^ 64 -> Z.land s ones64 = s.
Proof. intros H. unfold ones64. rewrite Z.land_ones by lia. apply Z.mod_small. lia. Qed.

Lemma N2Z_inj_land a b : Z.of_N (N.land a b) = Z.land (Z.of_N a) (Z.of_N b).
Proof.
  apply Z.bits_inj'. intros n Hn.
  rewrite Z.land_spec, !Z.testbit_of_N' by assumption. apply N.land_spec.
Qed.

(* counting through any mask whose low 64 bits are a range mask *)
Lemma zpop_land_mask s m lo hi : 0 <= s < 2 ^ 64 -> (hi <= 64)%nat ->
  Z.land m ones64 = Z.of_N (range_mask lo hi) ->
  zpopcount (Z.land s m) = Z.of_nat (cnt_range (Z.to_N s) lo hi).
Proof.
  intros Hs Hhi Hm. unfold zpopcount. f_equal.
  rewrite <- (land_ones64 s Hs) at 1. rewrite <- Z.land_assoc, (Z.land_comm ones64 m), Hm.
  replace s with (Z.of_N (Z.to_N s)) at 1 by (apply Z2N.id; lia).
  rewrite <- N2Z_inj_land, N2Z.id.
  apply (popcount_land_range _ lo hi 64); [assumption|].
  change (2 ^ N.of_nat 64)%N with (Z.to_N (2 ^ 64)). apply Z2N.inj_lt; lia.
Qed.

(* the masks the bit helpers are specified by (as integers) *)
Definition spec_between_mask (i j : Z) : Z :=
  Z.of_N (range_mask (S (Nat.min (Z.to_nat i) (Z.to_nat j))) (Nat.max (Z.to_nat i) (Z.to_nat j))).
Definition spec_above_mask (i : Z) : Z := Z.of_N (range_mask (S (Z.to_nat i)) 64).
Definition spec_below_mask (i : Z) : Z := Z.of_N (range_mask 0 (Z.to_nat i)).
