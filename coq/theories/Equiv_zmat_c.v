(* Equiv_zmat_c.v — the loop nest of lib/fci_graph.c calculate_Z_matrix (accelerated path),
   REGENERATED from the source on every run as the list of (flat index, value) assignments it
   performs and the list of binomial-table entries it reads (gen/Gen_zmatrix_c.v):
     * c_zmat_cell      for 1 <= nele <= norb <= 64 the table ends as the model's Z matrix
                        (Addr.zmat_entry) in row-major order - the same table the Python
                        reference path produces (Equiv_zmat.v);
     * c_zmat_reads_initialised   every read of the 65-wide binomial table is of an entry
                        0 <= k <= n <= 64, the only entries binom.h initialises (the table is
                        malloc'ed, not zeroed) and for which Equiv_binom proves the content;
     * c_zmat_writes_in_bounds    every write lies inside the nele x norb table.
   int arithmetic is taken as exact (no overflow below 64 orbitals in the index expressions);
   the narrowing (int32_t)tmp is the identity as long as the value fits (entries are bounded by
   the number of strings, which must fit an int32 for the table to be usable at all). *)
From Coq Require Import ZArith List Bool Lia.
From FQE Require Import GenBase Addr GenLoops Equiv_zmat.
From FQE.gen Require Import Gen_zmatrix_c.
Import ListNotations.
Local Open Scope Z_scope.

Ltac Zify.zify_post_hook ::= Z.to_euclidean_division_equations.

Lemma zsum_ext f g lo hi : (forall m, lo <= m < hi -> f m = g m) -> zsum f lo hi = zsum g lo hi.
Proof.
  intros H. unfold zsum.
  assert (G : forall l acc, (forall i, In i l -> (i < Z.to_nat (hi - lo))%nat) ->
            fold_left (fun a i => a + f (lo + Z.of_nat i)) l acc = fold_left (fun a i => a + g (lo + Z.of_nat i)) l acc).
  { induction l as [|i l IH]; intros acc Hl; [reflexivity|]. cbn [fold_left].
    rewrite (H (lo + Z.of_nat i)) by (specialize (Hl i (or_introl eq_refl)); lia).
    apply IH. intros j Hj. apply Hl. right. exact Hj. }
  apply G. intros i Hi. apply in_seq in Hi. lia.
Qed.

Lemma div65 a m : 0 <= a < 65 -> (a + 65 * m) / 65 = m /\ (a + 65 * m) mod 65 = a.
Proof. intros H. split; lia. Qed.

Definition cv1 (norb nele k ll : Z) : Z :=
  zsum (fun m => binomZ ((nele - k + 65 * m) / 65) ((nele - k + 65 * m) mod 65)
                 - binomZ ((nele - k - 1 + 65 * (m - 1)) / 65) ((nele - k - 1 + 65 * (m - 1)) mod 65))
       (norb - ll + 1) (norb - k + 1).

Lemma cv1_v1 norb nele k ll : 1 <= k < nele -> nele <= 64 -> cv1 norb nele k ll = v1 norb nele k ll.
Proof.
  intros Hk Hn. unfold cv1, v1. apply zsum_ext. intros m Hm.
  destruct (div65 (nele - k) m ltac:(lia)) as [A B]. rewrite A, B.
  destruct (div65 (nele - k - 1) (m - 1) ltac:(lia)) as [C D]. rewrite C, D. reflexivity.
Qed.

Lemma in_c_assigns norb nele x : In x (c_calculate_Z_matrix_assigns norb nele) <->
  (exists km llm, 0 <= km < nele - 1 /\ 0 <= llm < norb - nele + 1 /\
     x = (llm + (km + 1) - 1 + norb * (km + 1 - 1), cv1 norb nele (km + 1) (llm + (km + 1))))
  \/ (exists ll, nele <= ll < norb + 1 /\ x = (ll - 1 + norb * (nele - 1), ll - nele)).
Proof.
  unfold c_calculate_Z_matrix_assigns. cbv zeta. rewrite !app_nil_r. rewrite in_app_iff, !in_flat_map. split.
  - intros [[km [Hk H]]|[ll [Hl H]]].
    + apply in_zrange in Hk. rewrite app_nil_r in H. apply in_flat_map in H. destruct H as [llm [Hl H]].
      apply in_zrange in Hl. destruct H as [H|[]]. left. exists km, llm. repeat split; try lia. symmetry. exact H.
    + apply in_zrange in Hl. destruct H as [H|[]]. right. exists ll. split; [lia|]. symmetry. exact H.
  - intros [[km [llm [Hk [Hl E]]]]|[ll [Hl E]]].
    + left. exists km. split; [apply in_zrange; lia|]. rewrite app_nil_r. apply in_flat_map. exists llm.
      split; [apply in_zrange; lia|]. left. symmetry. exact E.
    + right. exists ll. split; [apply in_zrange; lia|]. left. symmetry. exact E.
Qed.

Theorem c_zmat_cell norb nele r c : 1 <= nele <= norb -> norb <= 64 -> 0 <= r < nele -> 0 <= c < norb ->
  final_flat (c_calculate_Z_matrix_assigns norb nele) (c + norb * r) = zmat_entry norb nele (r + 1) (c + 1).
Proof.
  intros Hn H64 Hr Hc. unfold zmat_entry.
  destruct (r + 1 <? nele) eqn:E1.
  - apply Z.ltb_lt in E1.
    destruct ((r + 1 <=? c + 1) && (c + 1 <? norb - nele + (r + 1) + 1)) eqn:E2.
    + apply andb_true_iff in E2. destruct E2 as [A B]. apply Z.leb_le in A. apply Z.ltb_lt in B.
      fold (v1 norb nele (r + 1) (c + 1)). rewrite <- cv1_v1 by lia.
      apply final_flat_some.
      * intros x Hx Fi. apply in_c_assigns in Hx. destruct Hx as [[km [llm [Hk [Hl E]]]]|[ll [Hl E]]]; subst x; cbn [fst snd] in *.
        -- destruct (flat_index_inj norb (llm + (km + 1) - 1) (km + 1 - 1) c r ltac:(lia) ltac:(lia) Fi) as [P Q].
           replace (km + 1) with (r + 1) by lia. replace (llm + (r + 1)) with (c + 1) by lia. reflexivity.
        -- destruct (flat_index_inj norb (ll - 1) (nele - 1) c r ltac:(lia) ltac:(lia) Fi) as [P Q]. lia.
      * exists (c - r + (r + 1) - 1 + norb * (r + 1 - 1), cv1 norb nele (r + 1) (c - r + (r + 1))). split.
        -- apply in_c_assigns. left. exists r, (c - r). repeat split; lia.
        -- cbn [fst]. lia.
    + apply final_flat_none. intros x Hx Fi. apply in_c_assigns in Hx.
      apply andb_false_iff in E2.
      destruct Hx as [[km [llm [Hk [Hl E]]]]|[ll [Hl E]]]; subst x; cbn [fst snd] in *.
      * destruct (flat_index_inj norb (llm + (km + 1) - 1) (km + 1 - 1) c r ltac:(lia) ltac:(lia) Fi) as [P Q].
        destruct E2 as [E2|E2]; [apply Z.leb_gt in E2|apply Z.ltb_ge in E2]; lia.
      * destruct (flat_index_inj norb (ll - 1) (nele - 1) c r ltac:(lia) ltac:(lia) Fi) as [P Q]. lia.
  - apply Z.ltb_ge in E1. replace (r + 1 =? nele) with true by (symmetry; apply Z.eqb_eq; lia).
    destruct ((nele <=? c + 1) && (c + 1 <? norb + 1)) eqn:E2.
    + apply andb_true_iff in E2. destruct E2 as [A B]. apply Z.leb_le in A. apply Z.ltb_lt in B.
      apply final_flat_some.
      * intros x Hx Fi. apply in_c_assigns in Hx. destruct Hx as [[km [llm [Hk [Hl E]]]]|[ll [Hl E]]]; subst x; cbn [fst snd] in *.
        -- destruct (flat_index_inj norb (llm + (km + 1) - 1) (km + 1 - 1) c r ltac:(lia) ltac:(lia) Fi) as [P Q]. lia.
        -- destruct (flat_index_inj norb (ll - 1) (nele - 1) c r ltac:(lia) ltac:(lia) Fi) as [P Q]. lia.
      * exists (c + 1 - 1 + norb * (nele - 1), c + 1 - nele). split.
        -- apply in_c_assigns. right. exists (c + 1). split; [lia|reflexivity].
        -- cbn [fst]. replace (nele - 1) with r by lia. lia.
    + apply final_flat_none. intros x Hx Fi. apply in_c_assigns in Hx.
      apply andb_false_iff in E2.
      destruct Hx as [[km [llm [Hk [Hl E]]]]|[ll [Hl E]]]; subst x; cbn [fst snd] in *.
      * destruct (flat_index_inj norb (llm + (km + 1) - 1) (km + 1 - 1) c r ltac:(lia) ltac:(lia) Fi) as [P Q]. lia.
      * destruct (flat_index_inj norb (ll - 1) (nele - 1) c r ltac:(lia) ltac:(lia) Fi) as [P Q].
        destruct E2 as [E2|E2]; [apply Z.leb_gt in E2|apply Z.ltb_ge in E2]; lia.
Qed.

(* both code paths produce the same table *)
Corollary c_zmat_is_py_zmat norb nele r c : 1 <= nele <= norb -> norb <= 64 -> 0 <= r < nele -> 0 <= c < norb ->
  final_flat (c_calculate_Z_matrix_assigns norb nele) (c + norb * r)
  = final_cell (Gen_zmatrix_py.py_get_Z_matrix_assigns norb nele) r c.
Proof. intros. rewrite c_zmat_cell by assumption. rewrite py_zmat_cell by lia. reflexivity. Qed.

Theorem c_zmat_writes_in_bounds norb nele x : 1 <= nele <= norb -> In x (c_calculate_Z_matrix_assigns norb nele) ->
  0 <= fst x < nele * norb.
Proof.
  intros Hn Hx. apply in_c_assigns in Hx.
  destruct Hx as [[km [llm [Hk [Hl E]]]]|[ll [Hl E]]]; subst x; cbn [fst snd]; nia.
Qed.

(* every read of the binomial table hits an initialised entry *)
Ltac inv_in :=
  repeat match goal with
         | H : In _ (_ ++ _) |- _ => apply in_app_or in H; destruct H as [H|H]
         | H : In _ (flat_map _ _) |- _ => apply in_flat_map in H; destruct H as [? [? H]]
         | H : In _ (zrange _ _) |- _ => apply in_zrange in H
         | H : In _ [] |- _ => destruct H
         | H : In _ (_ :: _) |- _ => destruct H as [H|H]
         end.

Theorem c_zmat_reads_initialised norb nele idx : 1 <= nele <= norb -> norb <= 64 ->
  In idx (c_calculate_Z_matrix_reads norb nele) ->
  0 <= idx mod c_calculate_Z_matrix_width <= idx / c_calculate_Z_matrix_width /\ idx / c_calculate_Z_matrix_width <= 64.
Proof.
  intros Hn H64 H. unfold c_calculate_Z_matrix_reads in H. cbv zeta in H. unfold c_calculate_Z_matrix_width.
  inv_in; subst idx.
  - match goal with |- context [(?a + 65 * ?m) mod 65] => destruct (div65 a m ltac:(lia)) as [A B]; rewrite A, B end. lia.
  - match goal with |- context [(?a + 65 * ?m) mod 65] => destruct (div65 a m ltac:(lia)) as [A B]; rewrite A, B end. lia.
Qed.

(* every cell of the output table is written by at most one iteration: the iterations of the
   `#pragma omp parallel for collapse(2)` nest (and the serial last-row loop) touch pairwise
   different cells, so their order and interleaving are immaterial (C10) *)
Theorem c_zmat_single_writer norb nele x y : 1 <= nele <= norb ->
  In x (c_calculate_Z_matrix_assigns norb nele) -> In y (c_calculate_Z_matrix_assigns norb nele) ->
  fst x = fst y -> x = y.
Proof.
  intros Hn Hx Hy E. apply in_c_assigns in Hx. apply in_c_assigns in Hy.
  destruct Hx as [[km [llm [Hk [Hl Ex]]]]|[ll [Hl Ex]]]; destruct Hy as [[km' [llm' [Hk' [Hl' Ey]]]]|[ll' [Hl' Ey]]];
    subst x y; cbn [fst snd] in E.
  - destruct (flat_index_inj norb (llm + (km + 1) - 1) (km + 1 - 1) (llm' + (km' + 1) - 1) (km' + 1 - 1) ltac:(lia) ltac:(lia) E) as [P Q].
    replace km' with km by lia. replace llm' with llm by lia. reflexivity.
  - destruct (flat_index_inj norb (llm + (km + 1) - 1) (km + 1 - 1) (ll' - 1) (nele - 1) ltac:(lia) ltac:(lia) E) as [P Q]. lia.
  - destruct (flat_index_inj norb (ll - 1) (nele - 1) (llm' + (km' + 1) - 1) (km' + 1 - 1) ltac:(lia) ltac:(lia) E) as [P Q]. lia.
  - destruct (flat_index_inj norb (ll - 1) (nele - 1) (ll' - 1) (nele - 1) ltac:(lia) ltac:(lia) E) as [P Q].
    replace ll' with ll by lia. reflexivity.
Qed.
