(* Arith.v — wavefunction arithmetic as arithmetic on the coefficient function
   (C08): an executable pool machine over sparse Gaussian-integer vectors and the
   laws that say every operation depends only on, and acts as expected on, the
   coefficient function det -> Z[i]. *)
From Coq Require Import NArith ZArith List Bool Arith Lia Ring.
From FQE Require Import Car Fock GaussZ.
Import ListNotations.

Definition gv := vec gz.
Definition gco : gv -> det -> gz := coeff gz gz0 gzadd.
Definition ginner : gv -> gv -> gz := inner gz gz0 gzadd gzmul gzconj.

Definition v_add (x y : gv) : gv := x ++ y.
Definition v_scale (a : gz) (x : gv) : gv := vscale gz gzmul a x.
Definition v_axpy (a : gz) (x y : gv) : gv := v_scale a x ++ y.      (* y + a x *)
Definition v_sub (x y : gv) : gv := x ++ v_scale (gzopp gz1) y.
Definition v_conj (x : gv) : gv := map (fun e => (fst e, gzconj (snd e))) x.
Definition v_set (d : det) (c : gz) (x : gv) : gv := (d, gzsub c (gco x d)) :: x.
Definition v_dot (x y : gv) : gz := ginner (v_conj x) y.            (* no conjugation *)
Definition v_vdot (x y : gv) : gz := ginner x y.
Definition v_norm2 (x : gv) : gz := ginner x x.
Definition v_max2 (basis : list det) (x : gv) : Z :=
  fold_right Z.max 0%Z (map (fun d => gznorm2 (gco x d)) basis).

(* pool machine *)
Inductive aop :=
| OAdd (i j k : nat) | OSub (i j k : nat) | OAxpy (i : nat) (a : gz) (j : nat)
| OScale (i : nat) (a : gz) | OSet (i : nat) (d : det) (c : gz)
| OCopy (i k : nat) | OEmpty (i k : nat)
| ODot (i j : nat) | OVdot (i j : nat) | ONorm2 (i : nat) | OGet (i : nat) (d : det)
| OMax (i : nat) (basis : list det).

Definition pool := list gv.
Definition pget (p : pool) (i : nat) : gv := nth i p [].
Fixpoint pset (p : pool) (i : nat) (v : gv) : pool :=
  match p, i with
  | [], _ => []
  | _ :: r, O => v :: r
  | x :: r, S i' => x :: pset r i' v
  end.

Definition step (p : pool) (o : aop) : pool * option gz :=
  match o with
  | OAdd i j k => (pset p k (v_add (pget p i) (pget p j)), None)
  | OSub i j k => (pset p k (v_sub (pget p i) (pget p j)), None)
  | OAxpy i a j => (pset p i (v_axpy a (pget p j) (pget p i)), None)
  | OScale i a => (pset p i (v_scale a (pget p i)), None)
  | OSet i d c => (pset p i (v_set d c (pget p i)), None)
  | OCopy i k => (pset p k (pget p i), None)
  | OEmpty i k => (pset p k [], None)
  | ODot i j => (p, Some (v_dot (pget p i) (pget p j)))
  | OVdot i j => (p, Some (v_vdot (pget p i) (pget p j)))
  | ONorm2 i => (p, Some (v_norm2 (pget p i)))
  | OGet i d => (p, Some (gco (pget p i) d))
  | OMax i basis => (p, Some (gz_of_Z (v_max2 basis (pget p i))))
  end.

Fixpoint run (p : pool) (ops : list aop) : pool * list (option gz) :=
  match ops with
  | [] => (p, [])
  | o :: r => let '(p1, ob) := step p o in let '(p2, obs) := run p1 r in (p2, ob :: obs)
  end.

(* ------------------------------------------------------------------ laws *)
Local Notation cA := (coeff_app gz gz0 gz1 gzadd gzmul gzsub gzopp gz_ring).
Local Notation cS := (coeff_vscale gz gz0 gz1 gzadd gzmul gzsub gzopp gz_ring).

Lemma gz_ring_lemmas : True. Proof. exact I. Qed.
Add Ring gzring : gz_ring.

Theorem co_add x y d : gco (v_add x y) d = gzadd (gco x d) (gco y d).
Proof. unfold gco, v_add. apply cA. Qed.

Theorem co_scale a x d : gco (v_scale a x) d = gzmul a (gco x d).
Proof. unfold gco, v_scale. apply cS. Qed.

Theorem co_axpy a x y d : gco (v_axpy a x y) d = gzadd (gco y d) (gzmul a (gco x d)).
Proof. unfold v_axpy. unfold gco. rewrite cA, cS. ring. Qed.

Theorem co_sub x y d : gco (v_sub x y) d = gzsub (gco x d) (gco y d).
Proof. unfold v_sub, gco. rewrite cA. unfold v_scale. rewrite cS. ring. Qed.

Theorem co_conj x d : gco (v_conj x) d = gzconj (gco x d).
Proof.
  unfold gco, v_conj. induction x as [|[e c] x IH]; cbn [map coeff fst snd]; [reflexivity|].
  rewrite IH, gzconj_add. destruct (det_eqb e d); reflexivity.
Qed.

Theorem co_set_same d c x : gco (v_set d c x) d = c.
Proof. unfold v_set, gco. cbn [coeff]. rewrite det_eqb_refl. ring. Qed.

Theorem co_set_other d c x e : d <> e -> gco (v_set d c x) e = gco x e.
Proof.
  intros H. unfold v_set, gco. cbn [coeff]. destruct (det_eqb d e) eqn:Q.
  - apply det_eqb_spec in Q. contradiction.
  - ring.
Qed.

Theorem co_empty d : gco [] d = gz0.
Proof. reflexivity. Qed.

(* inner products *)
Lemma inner_cons_r x e c y : ginner x ((e, c) :: y) = gzadd (gzmul c (gzconj (gco x e))) (ginner x y).
Proof.
  unfold ginner, gco. induction x as [|[d a] x IH]; cbn [inner coeff]; [rewrite gzconj_0; ring|].
  rewrite IH. rewrite gzconj_add. rewrite (det_eqb_sym d e).
  destruct (det_eqb e d); rewrite ?gzconj_0; ring.
Qed.

Theorem vdot_conj_sym x y : v_vdot x y = gzconj (v_vdot y x).
Proof.
  unfold v_vdot. induction y as [|[e c] y IH].
  - unfold ginner. cbn [inner]. induction x as [|[d a] x IHx]; cbn [inner coeff]; [reflexivity|]. rewrite IHx. rewrite gzconj_0. ring.
  - rewrite inner_cons_r, IH.
    replace (ginner ((e, c) :: y) x) with (gzadd (gzmul (gzconj c) (gco x e)) (ginner y x)) by reflexivity.
    rewrite !gzconj_add, !gzconj_mul, !gzconj_invol. ring.
Qed.

Lemma ginner_proper_r x y y' : (forall d, gco y d = gco y' d) -> ginner x y = ginner x y'.
Proof. apply (inner_proper_r gz gz0 gzadd gzmul gzconj). Qed.

Lemma ginner_proper_l x x' y : (forall d, gco x d = gco x' d) -> ginner x y = ginner x' y.
Proof.
  intros H. change (v_vdot x y = v_vdot x' y). rewrite (vdot_conj_sym x y), (vdot_conj_sym x' y).
  f_equal. apply ginner_proper_r. exact H.
Qed.

Theorem vdot_linear_r a x y z : v_vdot x (v_axpy a y z) = gzadd (v_vdot x z) (gzmul a (v_vdot x y)).
Proof.
  unfold v_vdot, v_axpy, ginner, v_scale.
  rewrite (inner_app_r gz gz0 gz1 gzadd gzmul gzsub gzopp gz_ring gzconj).
  rewrite (inner_vscale_r gz gz0 gz1 gzadd gzmul gzsub gzopp gz_ring gzconj). ring.
Qed.

Theorem vdot_basis d e : v_vdot [(d, gz1)] [(e, gz1)] = if det_eqb d e then gz1 else gz0.
Proof. unfold v_vdot, ginner. cbn [inner coeff]. rewrite (det_eqb_sym e d). destruct (det_eqb d e); reflexivity. Qed.

Theorem norm2_single d c : v_norm2 [(d, c)] = gz_of_Z (gznorm2 c).
Proof.
  unfold v_norm2, ginner. cbn [inner coeff]. rewrite det_eqb_refl.
  rewrite <- gznorm2_conj_mul. ring.
Qed.

(* the largest squared magnitude over a basis *)
Theorem max2_upper basis x d : In d basis -> (gznorm2 (gco x d) <= v_max2 basis x)%Z.
Proof.
  unfold v_max2. induction basis as [|e b IH]; intros H; simpl in *; [contradiction|].
  destruct H as [H|H]; [subst; lia|specialize (IH H); lia].
Qed.

Theorem max2_attained basis x : basis <> [] ->
  exists d, In d basis /\ v_max2 basis x = Z.max 0 (gznorm2 (gco x d)).
Proof.
  unfold v_max2. induction basis as [|e b IH]; intros H; [congruence|].
  destruct b as [|e' b'].
  - exists e. split; [left; reflexivity|]. simpl. lia.
  - destruct IH as [d [Hd He]]; [discriminate|].
    simpl in *. destruct (Z_le_gt_dec (gznorm2 (gco x e)) (Z.max (gznorm2 (gco x e')) (fold_right Z.max 0%Z (map (fun d0 => gznorm2 (gco x d0)) b')))).
    + exists d. split; [right; exact Hd|]. rewrite <- He. lia.
    + exists e. split; [left; reflexivity|]. pose proof (gznorm2_nonneg (gco x e)). lia.
Qed.

(* ------------------------------------------------------------------ congruence over histories *)
Definition veq (x y : gv) : Prop := forall d, gco x d = gco y d.
Definition peq (p q : pool) : Prop := length p = length q /\ forall i, veq (pget p i) (pget q i).

Lemma veq_refl x : veq x x. Proof. intros d; reflexivity. Qed.

Lemma pget_pset_same p i v : i < length p -> pget (pset p i v) i = v.
Proof.
  revert i. induction p as [|x p IH]; intros [|i] H; simpl in *; try lia; [reflexivity|].
  apply IH. lia.
Qed.

Lemma pget_pset_other p i j v : i <> j -> pget (pset p i v) j = pget p j.
Proof.
  revert i j. induction p as [|x p IH]; intros [|i] [|j] H; simpl; try reflexivity; try congruence.
  apply IH. congruence.
Qed.

Lemma pset_length p i v : length (pset p i v) = length p.
Proof. revert i. induction p as [|x p IH]; intros [|i]; simpl; auto. Qed.

Lemma pset_out p i v : length p <= i -> pset p i v = p.
Proof.
  revert i. induction p as [|x p IH]; intros [|i] H; simpl in *; try reflexivity; try lia.
  f_equal. apply IH. lia.
Qed.

Lemma peq_pset p q i u v : peq p q -> veq u v -> peq (pset p i u) (pset q i v).
Proof.
  intros [Hl H] Huv. split; [rewrite !pset_length; exact Hl|].
  intros j. destruct (Nat.eq_dec i j) as [E|E].
  - subst j. destruct (le_lt_dec (length p) i) as [Ho|Hi].
    + rewrite !pset_out by lia. apply H.
    + rewrite !pget_pset_same by lia. exact Huv.
  - rewrite !pget_pset_other by assumption. apply H.
Qed.

Lemma max2_proper basis x y : veq x y -> v_max2 basis x = v_max2 basis y.
Proof.
  intros H. unfold v_max2. f_equal. apply map_ext. intros d. rewrite H. reflexivity.
Qed.

Lemma veq_conj x y : veq x y -> veq (v_conj x) (v_conj y).
Proof. intros H d. rewrite !co_conj, H. reflexivity. Qed.

(* one step depends only on the coefficient functions, and so does a whole history *)
Theorem step_congruence p q o : peq p q ->
  peq (fst (step p o)) (fst (step q o)) /\ snd (step p o) = snd (step q o).
Proof.
  intros Hpq. pose proof Hpq as [Hl H].
  destruct o; simpl; (split; [|try reflexivity]); try assumption.
  - apply peq_pset; [assumption|]. intros d. rewrite !co_add, (H i), (H j). reflexivity.
  - apply peq_pset; [assumption|]. intros d. rewrite !co_sub, (H i), (H j). reflexivity.
  - apply peq_pset; [assumption|]. intros d. rewrite !co_axpy, (H i), (H j). reflexivity.
  - apply peq_pset; [assumption|]. intros d. rewrite !co_scale, (H i). reflexivity.
  - apply peq_pset; [assumption|]. intros e. destruct (det_eqb d e) eqn:Q.
    + apply det_eqb_spec in Q. subst. rewrite !co_set_same. reflexivity.
    + assert (d <> e) by (intros E; subst; rewrite det_eqb_refl in Q; discriminate).
      rewrite !co_set_other by assumption. apply H.
  - apply peq_pset; [assumption|]. apply H.
  - apply peq_pset; [assumption|]. apply veq_refl.
  - f_equal. unfold v_dot. rewrite (ginner_proper_l _ (v_conj (pget q i))) by (apply veq_conj; apply H).
    apply ginner_proper_r. apply H.
  - f_equal. unfold v_vdot. rewrite (ginner_proper_l _ (pget q i)) by apply H. apply ginner_proper_r. apply H.
  - f_equal. unfold v_norm2. rewrite (ginner_proper_l _ (pget q i)) by apply H. apply ginner_proper_r. apply H.
  - f_equal. apply H.
  - f_equal. f_equal. apply max2_proper. apply H.
Qed.

Theorem history_congruence ops : forall p q, peq p q ->
  peq (fst (run p ops)) (fst (run q ops)) /\ snd (run p ops) = snd (run q ops).
Proof.
  induction ops as [|o r IH]; intros p q H; simpl; [split; [assumption|reflexivity]|].
  destruct (step_congruence p q o H) as [H1 H2].
  destruct (step p o) as [p1 ob1]. destruct (step q o) as [q1 ob2]. simpl in *.
  specialize (IH p1 q1 H1). destruct (run p1 r) as [p2 obs1]. destruct (run q1 r) as [q2 obs2].
  simpl in *. destruct IH as [IH1 IH2]. split; [assumption|congruence].
Qed.

(* frame: an operation changes only the pool slot it names *)
Definition target (o : aop) : option nat :=
  match o with
  | OAdd _ _ k | OSub _ _ k | OCopy _ k | OEmpty _ k => Some k
  | OAxpy i _ _ | OScale i _ | OSet i _ _ => Some i
  | _ => None
  end.

Theorem step_frame p o j : target o <> Some j -> pget (fst (step p o)) j = pget p j.
Proof.
  destruct o; simpl; intros H; try reflexivity; apply pget_pset_other; congruence.
Qed.
