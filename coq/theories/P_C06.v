(* P_C06.v — C06 (first stage): the meaning of an operator expression is its
   Fock-space action; the identities a compiler may use are consequences of the
   proved CAR: reordering two adjacent operators of a string. *)
From Coq Require Import NArith ZArith List Bool Arith Lia Ring.
From FQE Require Import Car Fock GaussZ Bits Denote Model ApplyThm Sort.
Import ListNotations.

(* swapping adjacent anticommuting operators inside any string flips the sign:
   strings  a ++ [x; y] ++ b  and  a ++ [y; x] ++ b  act as negatives of each other
   whenever x and y anticommute as partial signed maps *)
Lemma scomp_congr_mid (F G A B : det -> sdet) :
  (forall d, F d = sneg (G d)) ->
  forall d, scomp A (scomp F B) d = sneg (scomp A (scomp G B) d).
Proof.
  intros H d. unfold scomp.
  destruct (B d) as [[s1 d1]|]; [|reflexivity].
  specialize (H d1). destruct (F d1) as [[s2 d2]|]; destruct (G d1) as [[s3 d3]|];
    simpl in H; try discriminate; [|reflexivity].
  inversion H; subst. destruct (A d3) as [[s4 d4]|]; [|reflexivity]. simpl.
  destruct s1, s3, s4; reflexivity.
Qed.

Theorem C06_swap_anticommuting : forall (x y : lop) (a b : list lop),
  (forall d, scomp (op_fn x) (op_fn y) d = sneg (scomp (op_fn y) (op_fn x) d)) ->
  forall d, string_fn (a ++ [x; y] ++ b) d = sneg (string_fn (a ++ [y; x] ++ b) d).
Proof.
  intros x y a b H d.
  rewrite !string_fn_app.
  assert (E : forall u v e, string_fn ([u; v] ++ b) e = scomp (scomp (op_fn u) (op_fn v)) (string_fn b) e).
  { intros u v e. simpl. rewrite <- scomp_assoc. reflexivity. }
  rewrite (scomp_ext _ _ _ _ (fun e => eq_refl) (E x y)).
  rewrite (scomp_ext _ _ _ _ (fun e => eq_refl) (E y x)).
  apply scomp_congr_mid. exact H.
Qed.
Print Assumptions C06_swap_anticommuting.

(* instances: two annihilators, two creators, or a creator and an annihilator of
   different positions anticommute *)
Theorem C06_anticommute_cases : forall p q, p <> q ->
  (forall d, scomp (op_fn (mkop p false)) (op_fn (mkop q false)) d = sneg (scomp (op_fn (mkop q false)) (op_fn (mkop p false)) d)) /\
  (forall d, scomp (op_fn (mkop p true)) (op_fn (mkop q true)) d = sneg (scomp (op_fn (mkop q true)) (op_fn (mkop p true)) d)) /\
  (forall d, scomp (op_fn (mkop p false)) (op_fn (mkop q true)) d = sneg (scomp (op_fn (mkop q true)) (op_fn (mkop p false)) d)).
Proof.
  intros p q H. unfold op_fn; simpl. repeat split; intros d.
  - apply ann_ann; assumption.
  - apply cre_cre; assumption.
  - apply ann_cre; assumption.
Qed.
Print Assumptions C06_anticommute_cases.

(* the index interleaving 2i+sigma <-> (sigma, i) used by Denote.EString is a bijection *)
Theorem C06_interleave_roundtrip : forall q, 2 * Nat.div2 q + (if Nat.odd q then 1 else 0) = q.
Proof.
  intros q. rewrite (Nat.div2_odd q) at 3. destruct (Nat.odd q); simpl; lia.
Qed.
Print Assumptions C06_interleave_roundtrip.

(* the compiler's swap-counting bubble sorts: the reordered string times (-1)^swaps acts
   exactly like the original string, whatever the order sorted by, as long as only
   operators of different modes are ever exchanged — for every string and determinant *)
Theorem C06_bubble_sort_sound : forall (gt : lop -> lop -> bool) l, swaps_ok gt l ->
  forall d, string_fn (snd (bubble gt l)) d = sflip (Nat.odd (fst (bubble gt l))) (string_fn l d).
Proof. exact bubble_sound. Qed.
Print Assumptions C06_bubble_sort_sound.

Theorem C06_parity_sort_sound : forall (mode : lop -> nat) l,
  (forall u v, In u l -> In v l -> mode u <> mode v -> opos u <> opos v) ->
  forall d, string_fn (snd (bubble (mode_parity_gt mode) l)) d
          = sflip (Nat.odd (fst (bubble (mode_parity_gt mode) l))) (string_fn l d).
Proof. exact parity_sort_sound. Qed.
Print Assumptions C06_parity_sort_sound.

Theorem C06_descending_sort_sound : forall (mode : lop -> nat) l,
  (forall u v, In u l -> In v l -> mode u <> mode v -> opos u <> opos v) ->
  forall d, string_fn (snd (bubble (mode_lt mode) l)) d
          = sflip (Nat.odd (fst (bubble (mode_lt mode) l))) (string_fn l d).
Proof. exact descending_sort_sound. Qed.
Print Assumptions C06_descending_sort_sound.

(* gather_nbody_spin_sectors AS CODED (Sort.gather is what the correspondence runs against
   the implementation): sound whenever the four sub-blocks are already descending, which
   normal_ordered guarantees; wrong otherwise (the sub-blocks are sorted on copies) *)
Theorem C06_gather_sound : forall ops, inblock_swaps ops = 0 ->
  forall d, match gather ops with (sg, ab, bb) => string_fn (ab ++ bb) d = sflip sg (string_fn ops d) end.
Proof. exact gather_sound. Qed.
Print Assumptions C06_gather_sound.

Theorem C06_gather_unsorted_refuted : exists ops d,
  match gather ops with (sg, ab, bb) => string_fn (ab ++ bb) d <> sflip sg (string_fn ops d) end.
Proof. exact gather_unsorted_refuted. Qed.
Print Assumptions C06_gather_unsorted_refuted.

(* normal ordering (what `normal_ordered` / the compiler's rewriting does before sorting): replacing
   ... a_p a†_q ... by  - ... a†_q a_p ...  +  delta_pq ... ...  until no annihilator stands left of a creator
   changes the representation only: the produced polynomial acts exactly like the source string (every string,
   coefficient, fuel, determinant length, ring), and with enough fuel every produced string is normal ordered *)
From FQE Require Import Wick.
Theorem C06_normal_ordering_sound :
  forall (R : Type) (rO rI : R) (radd rmul rsub : R -> R -> R) (ropp : R -> R),
  ring_theory rO rI radd rmul rsub ropp eq ->
  forall (fuel : nat) (c : R) (s : list lop) (n : nat) (v : vec R) (d : det),
  below n s -> wide R n v ->
  coeff R rO radd (act_poly R rmul ropp (expand R ropp fuel c s) v) d = rmul c (coeff R rO radd (act_string R ropp s v) d).
Proof. exact expand_sound. Qed.
Print Assumptions C06_normal_ordering_sound.

Theorem C06_normal_ordering_terminates_normal :
  forall (R : Type) (ropp : R -> R) (c : R) (s : list lop),
  Forall (fun t => normal (snd t)) (expand R ropp (S (inversions s)) c s)
  /\ length (expand R ropp (S (inversions s)) c s) <= 2 ^ inversions s.
Proof. intros. split; [apply expand_normal|apply expand_terms_le]; lia. Qed.
Print Assumptions C06_normal_ordering_terminates_normal.
