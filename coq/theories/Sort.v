(* Sort.v — C06: the swap-counting bubble sorts the operator compiler uses
   (util.paritysort_list, util.reverse_bubble_list) and why the sign (-1)^swaps they
   report is the right one: every exchange they perform is between ladder operators of
   DIFFERENT modes, which anticommute (CAR), so the reordered string times the sign acts
   exactly like the original string — for every string and every determinant. *)
From Coq Require Import List Bool Arith Lia.
From FQE Require Import Car Fock.
Import ListNotations.

Definition sflip (b : bool) (x : sdet) : sdet := if b then sneg x else x.

Lemma sneg_sneg x : sneg (sneg x) = x.
Proof. destruct x as [[s d]|]; simpl; [destruct s|]; reflexivity. Qed.
Lemma sflip_sneg b x : sflip (negb b) x = sneg (sflip b x).
Proof. destruct b; simpl; [rewrite sneg_sneg|]; reflexivity. Qed.
Lemma sneg_sflip b x : sneg (sflip b x) = sflip b (sneg x).
Proof. destruct b; reflexivity. Qed.
Lemma scomp_sneg_r f g d : scomp f (fun e => sneg (g e)) d = sneg (scomp f g d).
Proof.
  unfold scomp. destruct (g d) as [[s e]|]; simpl; [|reflexivity].
  destruct (f e) as [[s' e']|]; simpl; [|reflexivity]. destruct s, s'; reflexivity.
Qed.
Lemma scomp_sflip_r b f g d : scomp f (fun e => sflip b (g e)) d = sflip b (scomp f g d).
Proof. destruct b; simpl; [apply scomp_sneg_r|reflexivity]. Qed.

(* two ladder operators anticommute unless they are a creator and an annihilator of the same mode *)
Definition anticomm (x y : lop) : Prop :=
  forall d, scomp (op_fn x) (op_fn y) d = sneg (scomp (op_fn y) (op_fn x) d).

Lemma anticomm_diff_pos x y : opos x <> opos y -> anticomm x y.
Proof.
  intros H d. destruct x as [p dx], y as [q dy]. unfold op_fn; simpl in *.
  destruct dx, dy.
  - apply cre_cre; assumption.
  - rewrite (ann_cre q p d ltac:(congruence)). rewrite sneg_sneg. reflexivity.
  - apply ann_cre; assumption.
  - apply ann_ann; assumption.
Qed.

Section Bubble.
Variable gt : lop -> lop -> bool.          (* "out of order": exchange when gt x y *)

(* one pass of bubble sort carrying the current element x over the rest r *)
Fixpoint bub (x : lop) (r : list lop) : nat * list lop :=
  match r with
  | [] => (0, [x])
  | y :: r' => if gt x y then let (c, l) := bub x r' in (S c, y :: l)
               else let (c, l) := bub y r' in (c, x :: l)
  end.
Definition pass (l : list lop) : nat * list lop :=
  match l with [] => (0, []) | x :: r => bub x r end.
Fixpoint passes (n : nat) (l : list lop) : nat * list lop :=
  match n with
  | 0 => (0, l)
  | S m => let (c, l1) := pass l in let (c', l2) := passes m l1 in (c + c', l2)
  end.
(* util.reverse_bubble_list / paritysort_list: len(arr) passes (the early exit and the
   shrinking range skip only passes and comparisons that exchange nothing) *)
Definition bubble (l : list lop) : nat * list lop := passes (length l) l.

Lemma bub_perm x r : forall u, In u (snd (bub x r)) <-> In u (x :: r).
Proof.
  revert x. induction r as [|y r IH]; intros x u; simpl; [tauto|].
  destruct (gt x y).
  - destruct (bub x r) as [c l] eqn:E. simpl. specialize (IH x u). rewrite E in IH. simpl in IH. tauto.
  - destruct (bub y r) as [c l] eqn:E. simpl. specialize (IH y u). rewrite E in IH. simpl in IH. tauto.
Qed.

Lemma bub_length x r : length (snd (bub x r)) = S (length r).
Proof.
  revert x. induction r as [|y r IH]; intros x; simpl; [reflexivity|].
  destruct (gt x y).
  - specialize (IH x). destruct (bub x r) as [c l]. simpl in *. lia.
  - specialize (IH y). destruct (bub y r) as [c l]. simpl in *. lia.
Qed.

(* every exchange is between anticommuting operators *)
Definition swaps_ok (l : list lop) : Prop := forall u v, In u l -> In v l -> gt u v = true -> anticomm u v.

Lemma bub_sound x r : swaps_ok (x :: r) ->
  forall d, string_fn (snd (bub x r)) d = sflip (Nat.odd (fst (bub x r))) (string_fn (x :: r) d).
Proof.
  revert x. induction r as [|y r IH]; intros x H d; [reflexivity|].
  cbn [bub]. destruct (gt x y) eqn:G.
  - assert (H' : swaps_ok (x :: r)) by (intros u v Hu Hv; apply H; simpl in *; tauto).
    specialize (IH x H'). destruct (bub x r) as [c l]. cbn [fst snd] in *.
    cbn [string_fn]. rewrite (scomp_ext _ _ _ _ (fun e => eq_refl) IH).
    rewrite scomp_sflip_r. rewrite Nat.odd_succ, <- Nat.negb_odd, sflip_sneg.
    rewrite sneg_sflip. f_equal.
    cbn [string_fn]. rewrite !scomp_assoc.
    assert (A := H x y ltac:(simpl; tauto) ltac:(simpl; tauto) G).
    unfold scomp at 1 3. destruct (string_fn r d) as [[s e]|]; [|reflexivity].
    specialize (A e). destruct (scomp (op_fn x) (op_fn y) e) as [[s1 e1]|]; destruct (scomp (op_fn y) (op_fn x) e) as [[s2 e2]|];
      simpl in A; try discriminate; [|reflexivity].
    inversion A; subst. simpl. destruct s, s2; reflexivity.
  - assert (H' : swaps_ok (y :: r)) by (intros u v Hu Hv; apply H; simpl in *; tauto).
    specialize (IH y H'). destruct (bub y r) as [c l]. cbn [fst snd] in *.
    cbn [string_fn]. rewrite (scomp_ext _ _ _ _ (fun e => eq_refl) IH).
    rewrite scomp_sflip_r. reflexivity.
Qed.

Lemma pass_sound l : swaps_ok l ->
  forall d, string_fn (snd (pass l)) d = sflip (Nat.odd (fst (pass l))) (string_fn l d).
Proof. destruct l as [|x r]; intros H d; [reflexivity|]. apply bub_sound. exact H. Qed.

Lemma pass_perm l u : In u (snd (pass l)) <-> In u l.
Proof. destruct l as [|x r]; simpl; [tauto|]. apply bub_perm. Qed.

Lemma sflip_sflip a b x : sflip a (sflip b x) = sflip (xorb a b) x.
Proof. destruct a, b; simpl; rewrite ?sneg_sneg; reflexivity. Qed.

Lemma passes_sound n : forall l, swaps_ok l ->
  forall d, string_fn (snd (passes n l)) d = sflip (Nat.odd (fst (passes n l))) (string_fn l d).
Proof.
  induction n as [|n IH]; intros l H d; [reflexivity|].
  cbn [passes]. assert (P := pass_sound l H). assert (Q := pass_perm l).
  destruct (pass l) as [c l1]. cbn [fst snd] in *.
  assert (H1 : swaps_ok l1) by (intros u v Hu Hv; apply H; apply Q; assumption).
  specialize (IH l1 H1 d). destruct (passes n l1) as [c' l2]. cbn [fst snd] in *.
  rewrite IH, P, sflip_sflip. f_equal. rewrite Nat.odd_add. apply xorb_comm.
Qed.

(* THE SORT IS SOUND: reordered string = (-1)^swaps * original string *)
Theorem bubble_sound l : swaps_ok l ->
  forall d, string_fn (snd (bubble l)) d = sflip (Nat.odd (fst (bubble l))) (string_fn l d).
Proof. apply passes_sound. Qed.
End Bubble.

(* the two orders the compiler sorts by exchange only operators of different modes *)
Definition mode_parity_gt (mode : lop -> nat) (x y : lop) : bool := Nat.ltb (Nat.modulo (mode y) 2) (Nat.modulo (mode x) 2).
Definition mode_lt (mode : lop -> nat) (x y : lop) : bool := Nat.ltb (mode x) (mode y).

Theorem parity_sort_sound (mode : lop -> nat) l :
  (forall u v, In u l -> In v l -> mode u <> mode v -> opos u <> opos v) ->
  forall d, string_fn (snd (bubble (mode_parity_gt mode) l)) d
          = sflip (Nat.odd (fst (bubble (mode_parity_gt mode) l))) (string_fn l d).
Proof.
  intros H. apply bubble_sound. intros u v Hu Hv G. apply anticomm_diff_pos. apply H; try assumption.
  unfold mode_parity_gt in G. apply Nat.ltb_lt in G. intros E. rewrite E in G. lia.
Qed.

Theorem descending_sort_sound (mode : lop -> nat) l :
  (forall u v, In u l -> In v l -> mode u <> mode v -> opos u <> opos v) ->
  forall d, string_fn (snd (bubble (mode_lt mode) l)) d
          = sflip (Nat.odd (fst (bubble (mode_lt mode) l))) (string_fn l d).
Proof.
  intros H. apply bubble_sound. intros u v Hu Hv G. apply anticomm_diff_pos. apply H; try assumption.
  unfold mode_lt in G. apply Nat.ltb_lt in G. lia.
Qed.

(* ---------- hamiltonian_utils.gather_nbody_spin_sectors, as coded ---------- *)
(* operators are identified with their OpenFermion mode (opos = 2*orbital + spin) *)
Definition even_mode (o : lop) : bool := Nat.even (opos o).
Definition gather (ops : list lop) : bool * list lop * list lop :=
  let (c0, l) := bubble (mode_parity_gt opos) ops in
  let nalpha := length (filter even_mode l) in
  let ab := firstn nalpha l in
  let bb := skipn nalpha l in
  let nda := length (filter (fun o => andb (even_mode o) (odag o)) l) in
  let ndb := length (filter (fun o => andb (negb (even_mode o)) (odag o)) l) in
  (* the code sorts COPIES of the four sub-blocks: only the swap counts survive *)
  let c1 := fst (bubble (mode_lt opos) (firstn nda ab)) in
  let c2 := fst (bubble (mode_lt opos) (skipn nda ab)) in
  let c3 := fst (bubble (mode_lt opos) (firstn ndb bb)) in
  let c4 := fst (bubble (mode_lt opos) (skipn ndb bb)) in
  (Nat.odd (c0 + c1 + c2 + c3 + c4), ab, bb).

Definition inblock_swaps (ops : list lop) : nat :=
  let (c0, l) := bubble (mode_parity_gt opos) ops in
  let nalpha := length (filter even_mode l) in
  let ab := firstn nalpha l in
  let bb := skipn nalpha l in
  let nda := length (filter (fun o => andb (even_mode o) (odag o)) l) in
  let ndb := length (filter (fun o => andb (negb (even_mode o)) (odag o)) l) in
  fst (bubble (mode_lt opos) (firstn nda ab)) + fst (bubble (mode_lt opos) (skipn nda ab))
  + fst (bubble (mode_lt opos) (firstn ndb bb)) + fst (bubble (mode_lt opos) (skipn ndb bb)).

(* when the four sub-blocks are already descending (what normal_ordered guarantees),
   phase * (alpha block ++ beta block) acts exactly like the original string *)
Theorem gather_sound ops : inblock_swaps ops = 0 ->
  forall d, match gather ops with (sg, ab, bb) => string_fn (ab ++ bb) d = sflip sg (string_fn ops d) end.
Proof.
  unfold inblock_swaps, gather. intros H d.
  assert (S := parity_sort_sound opos ops (fun u v _ _ E => E) d).
  destruct (bubble (mode_parity_gt opos) ops) as [c0 l]. cbn [fst snd] in *.
  rewrite firstn_skipn. rewrite S. f_equal.
  replace (c0 + _ + _ + _ + _) with (c0 + 0) by lia. rewrite Nat.add_0_r. reflexivity.
Qed.

(* without that precondition the coded phase is wrong: a+_0 a+_2 (alpha creators ascending) *)
Theorem gather_unsorted_refuted : exists ops d,
  match gather ops with (sg, ab, bb) => string_fn (ab ++ bb) d <> sflip sg (string_fn ops d) end.
Proof.
  exists [mkop 0 true; mkop 2 true], [false; false; false]. vm_compute. discriminate.
Qed.

Example gather_example :
  gather [mkop 3 true; mkop 2 true; mkop 1 false; mkop 0 false]
  = (true, [mkop 2 true; mkop 0 false], [mkop 3 true; mkop 1 false])
  /\ inblock_swaps [mkop 3 true; mkop 2 true; mkop 1 false; mkop 0 false] = 0.
Proof. vm_compute. split; reflexivity. Qed.

(* swapping two adjacent anticommuting operators anywhere inside a string flips its sign *)
Lemma scomp_mid_sneg (F G A B : det -> sdet) :
  (forall d, F d = sneg (G d)) -> forall d, scomp A (scomp F B) d = sneg (scomp A (scomp G B) d).
Proof.
  intros H d. unfold scomp.
  destruct (B d) as [[s1 d1]|]; [|reflexivity].
  specialize (H d1). destruct (F d1) as [[s2 d2]|]; destruct (G d1) as [[s3 d3]|];
    simpl in H; try discriminate; [|reflexivity].
  inversion H; subst. destruct (A d3) as [[s4 d4]|]; [|reflexivity]. simpl.
  destruct s1, s3, s4; reflexivity.
Qed.

Lemma string_swap_adjacent x y a b : anticomm x y ->
  forall d, string_fn (a ++ [x; y] ++ b) d = sneg (string_fn (a ++ [y; x] ++ b) d).
Proof.
  intros A d. rewrite !string_fn_app.
  assert (E : forall u v e, string_fn ([u; v] ++ b) e = scomp (scomp (op_fn u) (op_fn v)) (string_fn b) e).
  { intros u v e. simpl. rewrite <- scomp_assoc. reflexivity. }
  rewrite (scomp_ext _ _ _ _ (fun e => eq_refl) (E x y)).
  rewrite (scomp_ext _ _ _ _ (fun e => eq_refl) (E y x)).
  apply scomp_mid_sneg. exact A.
Qed.
