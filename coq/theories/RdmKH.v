(* RdmKH.v — C03: the D-vector route to the density matrices equals their definition.
   FQE computes the spin-summed 1- and 2-RDM from D-vectors D_jl = E_jl |ket> and D'_ki = E_ki |bra>:
       <bra| E_il |ket>                                   (1-RDM: overlap of the bra with a D-vector)
       <bra| sum_{rho,eta} a†_{i rho} a†_{j eta} a_{k rho} a_{l eta} |ket>
           =  delta_kj <bra| E_il |ket>  -  < E_ki bra | E_jl ket >          (2-RDM: overlap of two D-vectors + delta term)
   Theorem rdm2_by_dvectors: for every orbital count, orbital indices, bra and ket over any commutative ring with an
   involutive conjugation - from the Knowles-Handy folding (CAR) and the adjoint of E_ik being E_ki. *)
From Coq Require Import NArith List Bool Arith Lia Ring.
From FQE Require Import Car Fock Bits Addr Maps MapsThm TableThm DvecThm.
Import ListNotations.

Section RdmKH.
Variable R : Type.
Variables (rO rI : R) (radd rmul rsub : R -> R -> R) (ropp : R -> R).
Hypothesis Rth : ring_theory rO rI radd rmul rsub ropp (@eq R).
Add Ring Rr_rdmkh : Rth.
Variable rconj : R -> R.
Hypothesis conj_add : forall a b, rconj (radd a b) = radd (rconj a) (rconj b).
Hypothesis conj_mul : forall a b, rconj (rmul a b) = rmul (rconj a) (rconj b).
Hypothesis conj_opp : forall a, rconj (ropp a) = ropp (rconj a).
Hypothesis conj_O : rconj rO = rO.
Hypothesis conj_invol : forall a, rconj (rconj a) = a.

Notation coeff := (Fock.coeff R rO radd).
Notation act_poly := (Fock.act_poly R rmul ropp).
Notation vscale := (Fock.vscale R rmul).
Notation wide := (Fock.wide R).
Notation inner := (Fock.inner R rO radd rmul rconj).
Notation E := (DvecThm.E R rI).
Infix "+" := radd. Infix "*" := rmul. Notation "- x" := (ropp x).
Notation "0" := rO. Notation "1" := rI.

Lemma conj_one : rconj 1 = 1.
Proof.
  assert (H : forall x, x * rconj 1 = x).
  { intros x. rewrite <- (conj_invol x) at 1. rewrite <- conj_mul.
    replace (rconj x * 1) with (rconj x) by ring. apply conj_invol. }
  rewrite <- (H 1) at 2. ring.
Qed.

Lemma E_adjoint norb i k : poly_adj R rconj (E norb k i) = E norb i k.
Proof.
  unfold DvecThm.E, TableThm.one_body_ij, poly_adj. cbn [map fst snd string_adj rev app op_adj opos odag negb].
  rewrite conj_one. reflexivity.
Qed.

Lemma inner_nil_r (x : vec R) : inner x [] = 0.
Proof. induction x as [|[d c] x IH]; cbn [Fock.inner Fock.coeff]; [reflexivity|]. rewrite IH. ring. Qed.

(* 1-RDM: the bra against the D-vector is the matrix element (definitionally); stated for the table push-forward *)
Theorem rdm1_by_tables norb h (x : vec R) (v : TableThm.svec R) :
  inner x (TableThm.vecof R norb (TableThm.apply1 R rmul ropp norb h v))
  = inner x (act_poly (TableThm.one_body_poly R norb h) (TableThm.vecof R norb v)).
Proof.
  apply (inner_proper_r R rO radd rmul rconj). intros d.
  apply (apply1_tables_sound R rO rI radd rmul rsub ropp Rth).
Qed.

Theorem rdm2_by_dvectors norb i j k l (x y : vec R) : j < norb -> k < norb -> wide (norb + norb) y ->
  inner x (act_poly (two_body_terms R norb 1 i j k l) y)
  = (if Nat.eqb k j then inner x (act_poly (E norb i l) y) else 0)
    + - inner (act_poly (E norb k i) x) (act_poly (E norb j l) y).
Proof.
  intros Hj Hk Hw.
  set (Z := (if Nat.eqb k j then act_poly (E norb i l) y else []) ++ vscale (- (1)) (act_poly (E norb i k) (act_poly (E norb j l) y))).
  rewrite (inner_proper_r R rO radd rmul rconj x _ Z).
  - unfold Z. rewrite (inner_app_r R rO rI radd rmul rsub ropp Rth rconj), (inner_vscale_r R rO rI radd rmul rsub ropp Rth rconj).
    erewrite (inner_act_poly_adj R rO rI radd rmul rsub ropp Rth rconj) by assumption. rewrite E_adjoint.
    destruct (Nat.eqb k j); [ring|]. rewrite inner_nil_r. ring.
  - intros d. rewrite (two_body_fold R rO rI radd rmul rsub ropp Rth norb 1 i j k l y d Hj Hk Hw).
    unfold Z. rewrite (coeff_app R rO rI radd rmul rsub ropp Rth), (coeff_vscale R rO rI radd rmul rsub ropp Rth).
    unfold cE. destruct (Nat.eqb k j); cbn [Fock.coeff]; ring.
Qed.
End RdmKH.
