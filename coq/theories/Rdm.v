(* Rdm.v — reduced density matrices as matrix elements (C03, Spec side):
   tensor[i_0,...,i_{2r-1}] = <bra| op_0(i_0) ... op_{2r-1}(i_{2r-1}) |ket>, where op_p is a
   creator or annihilator according to the pattern; spin-free: position p carries
   spin label (p mod r) and all 2^r label assignments are summed; spin-orbital:
   index < norb is alpha. *)
From Coq Require Import NArith ZArith List Bool Arith Lia.
From FQE Require Import Car Fock GaussZ Bits Denote Model.
Import ListNotations.

Fixpoint tuples (n k : nat) : list (list nat) :=
  match k with
  | O => [[]]
  | S k' => flat_map (fun i => map (cons i) (tuples n k')) (seq 0 n)
  end.

Definition rdm_ops_spinfree (r : nat) (pat : list bool) (idx : list nat) (sp : list bool) : list hop :=
  map (fun p => (nth (Nat.modulo p r) sp false, nth p idx 0, nth p pat false)) (seq 0 (2 * r)).

Definition rdm_ops_spinorb (norb r : nat) (pat : list bool) (idx : list nat) : list hop :=
  map (fun p => spinorb_hop norb (nth p pat false) (nth p idx 0)) (seq 0 (2 * r)).

Definition rdm_entry (norb : nat) (spinfree : bool) (pat : list bool)
           (bra ket : list (N * N * gz)) (idx : list nat) : gz :=
  let r := Nat.div2 (length pat) in
  if spinfree then
    m_matel norb (map (fun sp => (gz1, rdm_ops_spinfree r pat idx sp)) (spin_assignments r)) bra ket
  else
    m_matel norb [(gz1, rdm_ops_spinorb norb r pat idx)] bra ket.

Definition m_rdm (norb : nat) (spinfree : bool) (pat : list bool) (bra ket : list (N * N * gz)) : list gz :=
  let dim := if spinfree then norb else 2 * norb in
  map (rdm_entry norb spinfree pat bra ket) (tuples dim (length pat)).
