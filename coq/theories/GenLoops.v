(* GenLoops.v — vocabulary and semantics of the table-filling loop nests that the translator
   regenerates from the source (fci_graph._get_Z_matrix, lib/fci_graph.c calculate_Z_matrix):
   a loop nest is translated into the LIST OF ASSIGNMENTS (row, column, value) it performs, in
   program order, on a table that starts as zeros; the table's final content at a cell is the
   value of the last assignment to that cell, 0 if there is none. *)
From Coq Require Import ZArith List Bool Lia.
Import ListNotations.
Local Open Scope Z_scope.

Definition zrange (lo hi : Z) : list Z := map (fun i => lo + Z.of_nat i) (seq 0 (Z.to_nat (hi - lo))).

Lemma in_zrange lo hi x : In x (zrange lo hi) <-> lo <= x < hi.
Proof.
  unfold zrange. rewrite in_map_iff. split.
  - intros [i [E Hi]]. apply in_seq in Hi. lia.
  - intros H. exists (Z.to_nat (x - lo)). split; [lia|]. apply in_seq. lia.
Qed.

Definition cell := (Z * Z * Z)%type.
Definition at_cell (r c : Z) (x : cell) : bool := (fst (fst x) =? r) && (snd (fst x) =? c).

Definition final_cell (a : list cell) (r c : Z) : Z :=
  match find (at_cell r c) (rev a) with Some x => snd x | None => 0 end.

(* if every assignment to the cell writes v, and there is one, the cell ends as v *)
Lemma final_cell_some a r c v :
  (forall x, In x a -> fst (fst x) = r -> snd (fst x) = c -> snd x = v) ->
  (exists x, In x a /\ fst (fst x) = r /\ snd (fst x) = c) ->
  final_cell a r c = v.
Proof.
  intros Hall [x [Hin [Hr Hc]]]. unfold final_cell.
  destruct (find _ _) as [y|] eqn:F.
  - apply find_some in F. destruct F as [Hy Hm]. apply in_rev in Hy.
    unfold at_cell in Hm. apply andb_true_iff in Hm. destruct Hm as [H1 H2].
    apply Z.eqb_eq in H1. apply Z.eqb_eq in H2. apply Hall; assumption.
  - exfalso. assert (Hx : In x (rev a)) by (apply in_rev in Hin; exact Hin).
    pose proof (find_none _ _ F x Hx) as N. unfold at_cell in N.
    rewrite Hr, Hc, !Z.eqb_refl in N. discriminate.
Qed.

Lemma final_cell_none a r c :
  (forall x, In x a -> ~ (fst (fst x) = r /\ snd (fst x) = c)) -> final_cell a r c = 0.
Proof.
  intros Hno. unfold final_cell. destruct (find _ _) as [y|] eqn:F; [|reflexivity].
  exfalso. apply find_some in F. destruct F as [Hy Hm]. apply in_rev in Hy.
  unfold at_cell in Hm. apply andb_true_iff in Hm. destruct Hm as [H1 H2].
  apply Z.eqb_eq in H1. apply Z.eqb_eq in H2. apply (Hno y Hy). split; assumption.
Qed.

(* ---- the same for a table addressed by a flat index (C: out[col + ncols * row] = v) *)
Definition final_flat (a : list (Z * Z)) (idx : Z) : Z :=
  match find (fun x => fst x =? idx) (rev a) with Some x => snd x | None => 0 end.

Lemma final_flat_some a idx v :
  (forall x, In x a -> fst x = idx -> snd x = v) -> (exists x, In x a /\ fst x = idx) -> final_flat a idx = v.
Proof.
  intros Hall [x [Hin Hi]]. unfold final_flat.
  destruct (find _ _) as [y|] eqn:F.
  - apply find_some in F. destruct F as [Hy Hm]. apply in_rev in Hy. apply Z.eqb_eq in Hm. apply Hall; assumption.
  - exfalso. assert (Hx : In x (rev a)) by (apply in_rev in Hin; exact Hin).
    pose proof (find_none _ _ F x Hx) as N. cbn beta in N. rewrite Hi, Z.eqb_refl in N. discriminate.
Qed.

Lemma final_flat_none a idx : (forall x, In x a -> fst x <> idx) -> final_flat a idx = 0.
Proof.
  intros Hno. unfold final_flat. destruct (find _ _) as [y|] eqn:F; [|reflexivity].
  exfalso. apply find_some in F. destruct F as [Hy Hm]. apply in_rev in Hy. apply Z.eqb_eq in Hm.
  apply (Hno y Hy). exact Hm.
Qed.

(* col + ncols * row determines (row, col) *)
Lemma flat_index_inj n a b c r : 0 <= a < n -> 0 <= c < n -> a + n * b = c + n * r -> a = c /\ b = r.
Proof. intros Ha Hc E. assert (b = r) by nia. subst. lia. Qed.
