(* P_C05.v — C05, hand-written model of the tables: enumeration, mutual inverse of
   address and string lookup, table length, and the fermionic sign of excitation entries. *)
From Coq Require Import NArith ZArith List Bool Arith Lia.
From FQE Require Import Car Bits Addr Maps AddrThm MapsThm Bounds ZThm.
Import ListNotations.

Theorem C05_strings_enumerate : forall n k s, In s (strings n k) <-> (s < 2 ^ N.of_nat n)%N /\ popcount s = k.
Proof. exact strings_spec. Qed.
Print Assumptions C05_strings_enumerate.

Theorem C05_strings_nodup : forall n k, NoDup (strings n k).
Proof. exact strings_nodup. Qed.
Print Assumptions C05_strings_nodup.

Theorem C05_strings_length : forall n k, N.of_nat (length (strings n k)) = binom n k.
Proof. exact strings_length. Qed.
Print Assumptions C05_strings_length.

Theorem C05_binom_pascal : forall n k, binom (S n) (S k) = (binom n k + binom n (S k))%N.
Proof. exact binom_pascal. Qed.
Print Assumptions C05_binom_pascal.

Theorem C05_string_of_address : forall n k s, In s (strings n k) -> nth (raddr n k s) (strings n k) 0%N = s.
Proof. exact nth_raddr. Qed.
Print Assumptions C05_string_of_address.

Theorem C05_address_of_string : forall n k a, a < length (strings n k) -> raddr n k (nth a (strings n k) 0%N) = a.
Proof. exact raddr_nth. Qed.
Print Assumptions C05_address_of_string.

Theorem C05_address_injective : forall n k s t, In s (strings n k) -> In t (strings n k) -> raddr n k s = raddr n k t -> s = t.
Proof. exact raddr_injective. Qed.
Print Assumptions C05_address_injective.

Theorem C05_model_lookup_is_address : forall n k s, In s (strings n k) -> index_of s (strings n k) = Some (raddr n k s).
Proof. exact index_of_raddr. Qed.
Print Assumptions C05_model_lookup_is_address.

(* the Z matrix as the loops of _get_Z_matrix compute it: closed form of every entry read,
   and THE ADDRESS sum_k Z[k][occ_k] OF A STRING IS ITS POSITION IN THE STRING TABLE,
   for every orbital count and electron count (m_zmat / m_addr of the extracted model are
   exactly zmat / addr) *)
Theorem C05_zmat_entry_closed : forall norb nele k l : Z,
  (1 <= k <= nele)%Z -> (k <= l <= norb - nele + k)%Z ->
  zmat_entry norb nele k l = (binomZ (norb - k) (nele - k + 1) - binomZ (norb - l) (nele - k + 1))%Z.
Proof. exact zmat_entry_closed. Qed.
Print Assumptions C05_zmat_entry_closed.

Theorem C05_zmatrix_address_is_table_index : forall n K s, In s (strings n K) ->
  addr n K s = Z.of_nat (raddr n K s).
Proof. exact addr_is_table_index. Qed.
Print Assumptions C05_zmatrix_address_is_table_index.

Theorem C05_zmatrix_address_is_lookup : forall n K s, In s (strings n K) ->
  index_of s (strings n K) = Some (Z.to_nat (addr n K s)).
Proof. exact addr_index_of. Qed.
Print Assumptions C05_zmatrix_address_is_lookup.

Example C05_zmatrix_example : addr 6 3 41%N = 8%Z /\ nth 8 (strings 6 3) 0%N = 41%N.
Proof. vm_compute. split; reflexivity. Qed.

Theorem C05_excitation_sign : forall i j d, i <> j -> i < length d -> nth j d false = true -> nth i d false = false ->
  scomp (cre i) (ann j) d =
  Some (xorb (xorb (parity_before i d) (parity_before j d)) (j <? i), set_nth i true (set_nth j false d)).
Proof. exact excitation_sign. Qed.
Print Assumptions C05_excitation_sign.

Theorem C05_exc_entry_is_car : forall n s i j, i <> j -> i < n -> j < n -> tb s j = true -> tb s i = false ->
  scomp (cre i) (ann j) (bits n s) = Some (Nat.odd (cnt_between s i j), bits n (clrbit (setbit s i) j)).
Proof. exact exc_entry_is_car. Qed.
Print Assumptions C05_exc_entry_is_car.

Theorem C05_number_entry : forall i d, nth i d false = true -> scomp (cre i) (ann i) d = Some (false, d).
Proof. exact number_entry. Qed.
Print Assumptions C05_number_entry.

Theorem C05_deexc_row_count : forall t, reaching t = count_true t * S (length t - count_true t).
Proof. exact deexc_row_count. Qed.
Print Assumptions C05_deexc_row_count.

(* non-vacuity *)
Example C05_strings_example : strings 4 2 = [3; 5; 9; 6; 10; 12]%N.
Proof. reflexivity. Qed.
