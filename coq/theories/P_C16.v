(* P_C16.v — C16: converge-or-raise as a theorem about the propagators' control flow *)
From Coq Require Import QArith List Bool Arith Lia.
From FQE Require Import Poly.
Local Close Scope Q_scope.
Local Open Scope nat_scope.

Theorem C16_taylor_converge_or_raise :
  forall (A : Type) (size : nat -> Q) (add : A -> nat -> A) (acc : Q) limit s0,
  match taylor A size add acc limit s0 with
  | Ok K v => 1 <= K < limit /\ small size acc K = true /\ (forall j, 1 <= j < K -> small size acc j = false) /\
              v = partial A add 1 K s0
  | LimitReached => forall j, 1 <= j < limit -> small size acc j = false
  end.
Proof. exact taylor_converge_or_raise. Qed.
Print Assumptions C16_taylor_converge_or_raise.

Theorem C16_cheb_two_consecutive :
  forall (A : Type) (size : nat -> Q) (add : A -> nat -> A) (acc : Q) limit s0 K v,
  cheb A size add acc limit s0 = Ok K v ->
  3 <= K < limit /\ small size acc K = true /\ small size acc (K - 1) = true /\ v = partial A add 2 (K - 1) s0.
Proof. exact cheb_two_consecutive. Qed.
Print Assumptions C16_cheb_two_consecutive.

Theorem C16_cheb_first_small_refuted :
  exists (size : nat -> Q), cheb_orig_from size (1 # 1000)%Q 10 2 = Some 3 /\ ~ Qlt (size 4) (1 # 1000)%Q.
Proof. exact cheb_first_small_refuted. Qed.
Print Assumptions C16_cheb_first_small_refuted.

(* the remainder bound by which the exact Taylor oracle of the correspondence (and any reader of the stopping
   rule) may truncate: for 0 <= x < K+2 every partial sum of sum_{k>K} x^k/k! is at most
   x^(K+1)/(K+1)! * (K+2)/(K+2-x) *)
From Coq Require Import Reals.
From FQE Require Import TaylorTail.
Theorem C16_taylor_tail_bound : forall (x : R) (K n : nat), (0 <= x < INR (S (S K)))%R ->
  (tail_sum x (S K) n <= tterm x (S K) * (INR (S (S K)) / (INR (S (S K)) - x)))%R.
Proof. exact taylor_tail_bound. Qed.
Print Assumptions C16_taylor_tail_bound.
