(* DvecThm.v — C01: the Knowles–Handy D-vector algorithm for a spin-free one- plus two-body
   Hamiltonian, assembled from the excitation-table push-forwards of TableThm.v, computes the
   exact operator action — every orbital count, every h1, h2 over any commutative ring, every
   sparse vector.

     H = sum_il h1[i,l] E_il + sum_ijkl h2[i,j,k,l] sum_{rho,eta} a†_{i rho} a†_{j eta} a_{k rho} a_{l eta}
     (E_ik = a†_{i alpha} a_{k alpha} + a†_{i beta} a_{k beta};  FQE's spin-free tensor convention)

   Algorithm (what the kernels do, in the order they do it):
     1. fold the two-body tensor into the one-body matrix:  h1f[i,l] = h1[i,l] + sum_k h2[i,k,k,l]
     2. D-vectors:       D_jl  = E_jl psi                      (table push-forward)
     3. contraction:     F_ik  = - sum_jl h2[i,j,k,l] D_jl
     4. second sweep:    out   = sum_il h1f[i,l] E_il psi + sum_ik E_ik F_ik   (table push-forward)

   Theorem dvec_apply_sound: the coefficients of `out` are those of H psi.  Ingredients: the CAR
   identity kh_folding (Fock.v) with the fact that two operator positions coincide iff spin and
   orbital coincide, the table soundness of TableThm.v, linearity. *)
From Coq Require Import NArith List Bool Arith Lia Ring.
From FQE Require Import Car Fock Bits Addr Maps MapsThm TableThm.
Import ListNotations.

Section Dvec.
Variable R : Type.
Variables (rO rI : R) (radd rmul rsub : R -> R -> R) (ropp : R -> R).
Hypothesis Rth : ring_theory rO rI radd rmul rsub ropp (@eq R).
Add Ring Rr_dvec : Rth.

Notation coeff := (coeff R rO radd).
Notation act_string := (act_string R ropp).
Notation act_poly := (act_poly R rmul ropp).
Notation vscale := (vscale R rmul).
Notation wide := (wide R).
Notation vecof := (vecof R).
Notation apply1 := (apply1 R rmul ropp).
Notation one_body_poly := (one_body_poly R).
Notation one_body_ij := (one_body_ij R).
Infix "+" := radd. Infix "*" := rmul. Notation "- x" := (ropp x).
Notation "0" := rO. Notation "1" := rI.

(* ---- finite sums *)
Definition sumf {A} (l : list A) (f : A -> R) : R := fold_right (fun x acc => f x + acc) 0 l.

Lemma sumf_ext {A} (l : list A) f g : (forall x, In x l -> f x = g x) -> sumf l f = sumf l g.
Proof.
  induction l as [|x l IH]; intros H; [reflexivity|]. cbn [sumf fold_right].
  rewrite (H x (or_introl eq_refl)). fold (sumf l f). fold (sumf l g). rewrite IH; [reflexivity|].
  intros y Hy. apply H. right. exact Hy.
Qed.

Lemma sumf_add {A} (l : list A) f g : sumf l (fun x => f x + g x) = sumf l f + sumf l g.
Proof. induction l as [|x l IH]; cbn [sumf fold_right]; [ring|]. fold (sumf l f) (sumf l g) (sumf l (fun x => f x + g x)). rewrite IH. ring. Qed.

Lemma sumf_scal {A} (l : list A) c f : sumf l (fun x => c * f x) = c * sumf l f.
Proof. induction l as [|x l IH]; cbn [sumf fold_right]; [ring|]. fold (sumf l f) (sumf l (fun x => c * f x)). rewrite IH. ring. Qed.

Lemma sumf_opp {A} (l : list A) f : sumf l (fun x => - f x) = - sumf l f.
Proof. induction l as [|x l IH]; cbn [sumf fold_right]; [ring|]. fold (sumf l f) (sumf l (fun x => - f x)). rewrite IH. ring. Qed.

Lemma sumf_zero {A} (l : list A) : sumf l (fun _ => 0) = 0.
Proof. induction l as [|x l IH]; cbn [sumf fold_right]; [reflexivity|]. fold (sumf l (fun _ : A => 0)). rewrite IH. ring. Qed.

Lemma sumf_swap {A B} (l1 : list A) (l2 : list B) (f : A -> B -> R) :
  sumf l1 (fun a => sumf l2 (fun b => f a b)) = sumf l2 (fun b => sumf l1 (fun a => f a b)).
Proof.
  induction l1 as [|a l1 IH]; cbn [sumf fold_right].
  - symmetry. apply sumf_zero.
  - fold (sumf l1 (fun a0 => sumf l2 (fun b => f a0 b))). rewrite IH.
    rewrite <- sumf_add. apply sumf_ext. intros b _. reflexivity.
Qed.

(* sum over 0..n-1 against a Kronecker delta *)
Lemma sumf_delta n k (f : nat -> R) : k < n ->
  sumf (seq 0 n) (fun j => (if Nat.eqb k j then 1 else 0) * f j) = f k.
Proof.
  intros Hk.
  assert (G : forall off len, off <= k < off + len ->
            sumf (seq off len) (fun j => (if Nat.eqb k j then 1 else 0) * f j) = f k).
  { intros off len. revert off. induction len as [|len IH]; intros off H; [lia|].
    cbn [seq sumf fold_right]. fold (sumf (seq (S off) len) (fun j => (if Nat.eqb k j then 1 else 0) * f j)).
    destruct (Nat.eqb_spec k off) as [->|Hne].
    - assert (Z : sumf (seq (S off) len) (fun j => (if Nat.eqb off j then 1 else 0) * f j) = 0).
      { rewrite (sumf_ext _ _ (fun _ => 0)); [apply sumf_zero|].
        intros j Hj. apply in_seq in Hj. destruct (Nat.eqb_spec off j); [lia|ring]. }
      rewrite Z. ring.
    - rewrite IH by lia. ring. }
  apply G. lia.
Qed.

Lemma coeff_flat_map_sum {A} (g : A -> vec R) l d : coeff (flat_map g l) d = sumf l (fun y => coeff (g y) d).
Proof.
  induction l as [|y l IH]; [reflexivity|]. cbn [flat_map sumf fold_right].
  rewrite (coeff_app R rO rI radd rmul rsub ropp Rth), IH. reflexivity.
Qed.

Lemma act_poly_flat_map' {A} (F : A -> poly R) l v :
  act_poly (flat_map F l) v = flat_map (fun y => act_poly (F y) v) l.
Proof.
  unfold Fock.act_poly. induction l as [|y l IH]; [reflexivity|]. cbn [flat_map]. rewrite flat_map_app, IH. reflexivity.
Qed.

(* ---- linearity of the action over finite combinations, at the level of coefficients *)
Lemma sgn_sumf {A} s (l : list A) f : sgn R ropp s (sumf l f) = sumf l (fun x => sgn R ropp s (f x)).
Proof. destruct s; cbn [sgn]; [symmetry; apply sumf_opp|reflexivity]. Qed.

Lemma act_string_combination {A} ops (L : list A) (c : A -> R) (U : A -> vec R) (W : vec R) :
  (forall e, coeff W e = sumf L (fun x => c x * coeff (U x) e)) ->
  forall d, coeff (act_string ops W) d = sumf L (fun x => c x * coeff (act_string ops (U x)) d).
Proof.
  intros H d. rewrite (coeff_act_string R rO rI radd rmul rsub ropp Rth).
  destruct (string_fn (string_adj ops) d) as [[s e]|] eqn:E.
  - rewrite H, sgn_sumf. apply sumf_ext. intros x _.
    rewrite (coeff_act_string R rO rI radd rmul rsub ropp Rth), E.
    rewrite (sgn_mul R rO rI radd rmul rsub ropp Rth). reflexivity.
  - rewrite (sumf_ext _ _ (fun _ => 0)); [symmetry; apply sumf_zero|].
    intros x _. rewrite (coeff_act_string R rO rI radd rmul rsub ropp Rth), E. ring.
Qed.

Lemma act_poly_combination {A} p (L : list A) (c : A -> R) (U : A -> vec R) (W : vec R) :
  (forall e, coeff W e = sumf L (fun x => c x * coeff (U x) e)) ->
  forall d, coeff (act_poly p W) d = sumf L (fun x => c x * coeff (act_poly p (U x)) d).
Proof.
  intros H d. rewrite (coeff_act_poly R rO rI radd rmul rsub ropp Rth).
  induction p as [|[a ops] p IH]; cbn [fold_right fst snd].
  - rewrite (sumf_ext _ _ (fun _ => 0)); [symmetry; apply sumf_zero|].
    intros x _. rewrite (coeff_act_poly R rO rI radd rmul rsub ropp Rth). cbn [fold_right]. ring.
  - rewrite IH. rewrite (act_string_combination ops L c U W H d).
    rewrite <- sumf_scal, <- sumf_add. apply sumf_ext. intros x _.
    rewrite (coeff_act_poly R rO rI radd rmul rsub ropp Rth ((a, ops) :: p) (U x) d). cbn [fold_right fst snd].
    rewrite <- (coeff_act_poly R rO rI radd rmul rsub ropp Rth p (U x) d). ring.
Qed.

Lemma act_string_combination2 {A B} ops (L1 : list A) (L2 : list B) (c : A -> B -> R) (U : A -> B -> vec R) (W : vec R) :
  (forall e, coeff W e = sumf L1 (fun a => sumf L2 (fun b => c a b * coeff (U a b) e))) ->
  forall d, coeff (act_string ops W) d = sumf L1 (fun a => sumf L2 (fun b => c a b * coeff (act_string ops (U a b)) d)).
Proof.
  intros H d. rewrite (coeff_act_string R rO rI radd rmul rsub ropp Rth).
  destruct (string_fn (string_adj ops) d) as [[s e]|] eqn:E0.
  - rewrite H, sgn_sumf. apply sumf_ext. intros a _. rewrite sgn_sumf. apply sumf_ext. intros b _.
    rewrite (coeff_act_string R rO rI radd rmul rsub ropp Rth), E0.
    rewrite (sgn_mul R rO rI radd rmul rsub ropp Rth). reflexivity.
  - rewrite (sumf_ext _ _ (fun _ => 0)); [symmetry; apply sumf_zero|].
    intros a _. rewrite (sumf_ext _ _ (fun _ => 0)); [apply sumf_zero|].
    intros b _. rewrite (coeff_act_string R rO rI radd rmul rsub ropp Rth), E0. ring.
Qed.

Lemma act_poly_combination2 {A B} p (L1 : list A) (L2 : list B) (c : A -> B -> R) (U : A -> B -> vec R) (W : vec R) :
  (forall e, coeff W e = sumf L1 (fun a => sumf L2 (fun b => c a b * coeff (U a b) e))) ->
  forall d, coeff (act_poly p W) d = sumf L1 (fun a => sumf L2 (fun b => c a b * coeff (act_poly p (U a b)) d)).
Proof.
  intros H d. rewrite (coeff_act_poly R rO rI radd rmul rsub ropp Rth).
  induction p as [|[a0 ops] p IH]; cbn [fold_right fst snd].
  - rewrite (sumf_ext _ _ (fun _ => 0)); [symmetry; apply sumf_zero|].
    intros a _. rewrite (sumf_ext _ _ (fun _ => 0)); [apply sumf_zero|].
    intros b _. rewrite (coeff_act_poly R rO rI radd rmul rsub ropp Rth). cbn [fold_right]. ring.
  - rewrite IH. rewrite (act_string_combination2 ops L1 L2 c U W H d).
    rewrite <- sumf_scal, <- sumf_add. apply sumf_ext. intros a _.
    rewrite <- sumf_scal, <- sumf_add. apply sumf_ext. intros b _.
    rewrite (coeff_act_poly R rO rI radd rmul rsub ropp Rth ((a0, ops) :: p) (U a b) d). cbn [fold_right fst snd].
    rewrite <- (coeff_act_poly R rO rI radd rmul rsub ropp Rth p (U a b) d). ring.
Qed.

Lemma act_poly_nil' p : act_poly p [] = [].
Proof. unfold Fock.act_poly. induction p as [|[a ops] p IH]; [reflexivity|]. cbn [flat_map]. rewrite IH. reflexivity. Qed.

Lemma act_poly_neg p (W : vec R) d : coeff (act_poly p (vscale (ropp rI) W)) d = - coeff (act_poly p W) d.
Proof.
  pose proof (act_poly_linear R rO rI radd rmul rsub ropp Rth p (ropp rI) W [] d) as L.
  unfold vadd in L. rewrite app_nil_r in L. rewrite L. rewrite act_poly_nil'. cbn [Fock.coeff]. ring.
Qed.

(* ---- the one-body pieces *)
Definition E (norb i k : nat) : poly R := one_body_ij norb (fun _ _ => 1) i k.
Definition cE (norb i k : nat) (V : vec R) (d : det) : R := coeff (act_poly (E norb i k) V) d.

Lemma coeff_one_body_ij norb h i j V d :
  coeff (act_poly (one_body_ij norb h i j) V) d = h i j * cE norb i j V d.
Proof.
  unfold cE, E, TableThm.one_body_ij. rewrite !(coeff_act_poly R rO rI radd rmul rsub ropp Rth).
  cbn [fold_right fst snd]. ring.
Qed.

Lemma coeff_one_body_poly norb h V d :
  coeff (act_poly (one_body_poly norb h) V) d
  = sumf (seq 0 norb) (fun i => sumf (seq 0 norb) (fun j => h i j * cE norb i j V d)).
Proof.
  unfold TableThm.one_body_poly. rewrite act_poly_flat_map', coeff_flat_map_sum.
  apply sumf_ext. intros i _. rewrite act_poly_flat_map', coeff_flat_map_sum.
  apply sumf_ext. intros j _. apply coeff_one_body_ij.
Qed.

(* the table push-forward of a single E_ik *)
Definition applyE (norb i k : nat) (u : svec R) : svec R :=
  flat_map (fun x => emit_ij R rmul ropp (fun _ _ => 1) x i k) u.

Lemma applyE_sound norb i k u d : i < norb -> k < norb ->
  coeff (vecof norb (applyE norb i k u)) d = cE norb i k (vecof norb u) d.
Proof.
  intros Hi Hk. unfold applyE, cE, E. induction u as [|x u IH].
  - cbn [flat_map TableThm.vecof map]. unfold Fock.act_poly, TableThm.one_body_ij. cbn [flat_map]. reflexivity.
  - cbn [flat_map]. unfold TableThm.vecof at 1. rewrite map_app.
    fold (vecof norb (emit_ij R rmul ropp (fun _ _ => 1) x i k)).
    fold (vecof norb (flat_map (fun x0 => emit_ij R rmul ropp (fun _ _ => 1) x0 i k) u)).
    rewrite (coeff_app R rO rI radd rmul rsub ropp Rth), IH.
    change (vecof norb (x :: u)) with ((det2 norb (fst (fst x)) (snd (fst x)), snd x) :: vecof norb u).
    rewrite (coeff_act_poly_cons R rO rI radd rmul rsub ropp Rth).
    destruct x as [[a b] c]. cbn [fst snd].
    rewrite (emit_ij_sound R rO rI radd rmul rsub ropp Rth norb (fun _ _ => 1) a b c i k d Hi Hk). reflexivity.
Qed.

(* ---- the CAR step: the spin-summed two-body string folds into products of E's *)
Definition so (norb : nat) (beta : bool) (i : nat) (dg : bool) : lop := mkop (pos2 norb beta i) dg.

Definition two_body_terms (norb : nat) (c : R) (i j k l : nat) : poly R :=
  flat_map (fun rho => map (fun eta =>
     (c, [so norb rho i true; so norb eta j true; so norb rho k false; so norb eta l false]))
     [false; true]) [false; true].

Lemma pos2_eq norb r1 k r2 j : k < norb -> j < norb ->
  Nat.eqb (pos2 norb r1 k) (pos2 norb r2 j) = andb (Bool.eqb r1 r2) (Nat.eqb k j).
Proof.
  intros Hk Hj. unfold pos2. destruct r1, r2; cbn [Bool.eqb andb];
    destruct (Nat.eqb_spec k j) as [E0|E0]; first [apply Nat.eqb_eq; lia | apply Nat.eqb_neq; lia].
Qed.

Lemma vecof_wide norb u : wide (norb + norb) (vecof norb u).
Proof.
  intros e c Hin. unfold TableThm.vecof in Hin. apply in_map_iff in Hin. destruct Hin as [x [Hx _]].
  inversion Hx; subst. unfold det2. rewrite app_length, !rev_bits_length. reflexivity.
Qed.

Lemma pos2_lt norb beta i : i < norb -> pos2 norb beta i < norb + norb.
Proof. unfold pos2. destruct beta; lia. Qed.

(* coefficient of E_ik (E_jl V) as the four spin-resolved products *)
Lemma cEE norb i k j l V d :
  coeff (act_poly (E norb i k) (act_poly (E norb j l) V)) d
  = sumf [false; true] (fun rho => sumf [false; true] (fun eta =>
      coeff (act_string ([so norb rho i true; so norb rho k false] ++ [so norb eta j true; so norb eta l false]) V) d)).
Proof.
  set (W := act_poly (E norb j l) V).
  assert (HW : forall e, coeff W e = sumf [false; true] (fun eta => 1 * coeff (act_string [so norb eta j true; so norb eta l false] V) e)).
  { intros e. unfold W, E, TableThm.one_body_ij. rewrite (coeff_act_poly R rO rI radd rmul rsub ropp Rth).
    cbn [fold_right fst snd sumf]. unfold so. ring. }
  unfold E at 1. unfold TableThm.one_body_ij. rewrite (coeff_act_poly R rO rI radd rmul rsub ropp Rth).
  cbn [fold_right fst snd].
  rewrite (act_string_combination _ [false; true] (fun _ => 1) _ W HW d).
  rewrite (act_string_combination _ [false; true] (fun _ => 1) _ W HW d).
  cbn [sumf fold_right]. rewrite !(act_string_app R rO rI radd rmul rsub ropp Rth). unfold so. ring.
Qed.

Lemma two_body_fold norb c i j k l V d : j < norb -> k < norb -> wide (norb + norb) V ->
  coeff (act_poly (two_body_terms norb c i j k l) V) d
  = c * ((if Nat.eqb k j then cE norb i l V d else 0)
         + - coeff (act_poly (E norb i k) (act_poly (E norb j l) V)) d).
Proof.
  intros Hj Hk Hw. rewrite cEE. unfold two_body_terms.
  rewrite (coeff_act_poly R rO rI radd rmul rsub ropp Rth). cbn [flat_map map app fold_right fst snd sumf].
  unfold so.
  rewrite !(kh_folding R rO rI radd rmul rsub ropp Rth _ _ _ _ (norb + norb) V d) by (try apply pos2_lt; assumption).
  rewrite !pos2_eq by assumption. cbn [Bool.eqb andb].
  unfold cE, E, TableThm.one_body_ij. rewrite (coeff_act_poly R rO rI radd rmul rsub ropp Rth). cbn [fold_right fst snd app].
  destruct (Nat.eqb k j); ring.
Qed.

(* ---- the Hamiltonian and the algorithm *)
Definition restricted_poly (norb : nat) (h1 : nat -> nat -> R) (h2 : nat -> nat -> nat -> nat -> R) : poly R :=
  one_body_poly norb h1 ++
  flat_map (fun i => flat_map (fun k => flat_map (fun j => flat_map (fun l =>
     two_body_terms norb (h2 i j k l) i j k l) (seq 0 norb)) (seq 0 norb)) (seq 0 norb)) (seq 0 norb).

Definition svscale (c : R) (u : svec R) : svec R := map (fun x => (fst x, c * snd x)) u.

Definition dvec_apply (norb : nat) (h1 : nat -> nat -> R) (h2 : nat -> nat -> nat -> nat -> R) (v : svec R) : svec R :=
  apply1 norb (fun i l => h1 i l + sumf (seq 0 norb) (fun k => h2 i k k l)) v
  ++ flat_map (fun i => flat_map (fun k =>
       applyE norb i k (svscale (ropp rI) (apply1 norb (fun j l => h2 i j k l) v))) (seq 0 norb)) (seq 0 norb).

Lemma vecof_svscale norb c u : vecof norb (svscale c u) = vscale c (vecof norb u).
Proof. unfold TableThm.vecof, svscale, Fock.vscale. rewrite !map_map. reflexivity. Qed.

Lemma vecof_app norb u w : vecof norb (u ++ w) = vecof norb u ++ vecof norb w.
Proof. unfold TableThm.vecof. apply map_app. Qed.

Theorem dvec_apply_sound norb h1 h2 (v : svec R) d :
  coeff (vecof norb (dvec_apply norb h1 h2 v)) d
  = coeff (act_poly (restricted_poly norb h1 h2) (vecof norb v)) d.
Proof.
  set (V := vecof norb v). assert (Hw : wide (norb + norb) V) by apply vecof_wide.
  set (N := seq 0 norb).
  (* ---- the operator side *)
  assert (RHS : coeff (act_poly (restricted_poly norb h1 h2) V) d
    = sumf N (fun i => sumf N (fun l => h1 i l * cE norb i l V d))
      + sumf N (fun i => sumf N (fun k => sumf N (fun j => sumf N (fun l =>
          h2 i j k l * ((if Nat.eqb k j then cE norb i l V d else 0)
                        + - coeff (act_poly (E norb i k) (act_poly (E norb j l) V)) d)))))).
  { unfold restricted_poly. rewrite (act_poly_app R rO rI radd rmul rsub ropp Rth), coeff_one_body_poly. f_equal.
    rewrite act_poly_flat_map', coeff_flat_map_sum. apply sumf_ext. intros i Hi.
    rewrite act_poly_flat_map', coeff_flat_map_sum. apply sumf_ext. intros k Hk.
    rewrite act_poly_flat_map', coeff_flat_map_sum. apply sumf_ext. intros j Hj.
    rewrite act_poly_flat_map', coeff_flat_map_sum. apply sumf_ext. intros l Hl.
    apply in_seq in Hk. apply in_seq in Hj. apply two_body_fold; try lia. exact Hw. }
  rewrite RHS. clear RHS.
  (* ---- the algorithm side *)
  unfold dvec_apply. rewrite vecof_app, (coeff_app R rO rI radd rmul rsub ropp Rth).
  rewrite (apply1_tables_sound R rO rI radd rmul rsub ropp Rth). fold V. rewrite coeff_one_body_poly. fold N.
  rewrite (vecof_flat_map R), coeff_flat_map_sum. fold N.
  assert (SW : sumf N (fun i => coeff (vecof norb (flat_map (fun k =>
                 applyE norb i k (svscale (ropp rI) (apply1 norb (fun j l => h2 i j k l) v))) N)) d)
    = sumf N (fun i => sumf N (fun k => sumf N (fun j => sumf N (fun l =>
        h2 i j k l * - coeff (act_poly (E norb i k) (act_poly (E norb j l) V)) d))))).
  { apply sumf_ext. intros i Hi. rewrite (vecof_flat_map R), coeff_flat_map_sum. apply sumf_ext. intros k Hk.
    apply in_seq in Hi. apply in_seq in Hk.
    rewrite applyE_sound by lia. unfold cE. rewrite vecof_svscale, act_poly_neg.
    set (W := vecof norb (apply1 norb (fun j l => h2 i j k l) v)).
    assert (HW : forall e, coeff W e = sumf N (fun j => sumf N (fun l => h2 i j k l * coeff (act_poly (E norb j l) V) e))).
    { intros e. unfold W. rewrite (apply1_tables_sound R rO rI radd rmul rsub ropp Rth). fold V.
      rewrite coeff_one_body_poly. reflexivity. }
    rewrite (act_poly_combination2 (E norb i k) N N (fun j l => h2 i j k l) (fun j l => act_poly (E norb j l) V) W HW d).
    rewrite <- sumf_opp. apply sumf_ext. intros j _. rewrite <- sumf_opp. apply sumf_ext. intros l _. ring. }
  rewrite SW. clear SW.
  (* ---- both sides as sums: split, contract the delta, exchange two summations *)
  assert (SPLIT : sumf N (fun i => sumf N (fun k => sumf N (fun j => sumf N (fun l =>
          h2 i j k l * ((if Nat.eqb k j then cE norb i l V d else 0)
                        + - coeff (act_poly (E norb i k) (act_poly (E norb j l) V)) d)))))
     = sumf N (fun i => sumf N (fun l => sumf N (fun k => h2 i k k l) * cE norb i l V d))
       + sumf N (fun i => sumf N (fun k => sumf N (fun j => sumf N (fun l =>
          h2 i j k l * - coeff (act_poly (E norb i k) (act_poly (E norb j l) V)) d))))).
  { rewrite <- sumf_add. apply sumf_ext. intros i _.
    assert (D : sumf N (fun k => sumf N (fun j => sumf N (fun l => h2 i j k l * (if Nat.eqb k j then cE norb i l V d else 0))))
              = sumf N (fun l => sumf N (fun k => h2 i k k l) * cE norb i l V d)).
    { rewrite (sumf_ext N (fun k => sumf N (fun j => sumf N (fun l => h2 i j k l * (if Nat.eqb k j then cE norb i l V d else 0))))
                          (fun k => sumf N (fun l => h2 i k k l * cE norb i l V d))).
      - rewrite sumf_swap. apply sumf_ext. intros l _.
        rewrite (Rmul_comm Rth (sumf N (fun k => h2 i k k l))), <- sumf_scal.
        apply sumf_ext. intros k _. ring.
      - intros k Hk. apply in_seq in Hk. rewrite sumf_swap. apply sumf_ext. intros l _.
        rewrite (sumf_ext N _ (fun j => (if Nat.eqb k j then 1 else 0) * (h2 i j k l * cE norb i l V d))).
        + unfold N. rewrite (sumf_delta norb k (fun j => h2 i j k l * cE norb i l V d)) by lia. reflexivity.
        + intros j _. destruct (Nat.eqb k j); ring. }
    rewrite <- D. rewrite <- sumf_add. apply sumf_ext. intros k _.
    rewrite <- sumf_add. apply sumf_ext. intros j _. rewrite <- sumf_add. apply sumf_ext. intros l _. ring. }
  rewrite SPLIT. clear SPLIT.
  rewrite (Radd_assoc Rth). f_equal.
  rewrite <- sumf_add. apply sumf_ext. intros i _. rewrite <- sumf_add. apply sumf_ext. intros l _. ring.
Qed.
End Dvec.
