(* Equiv_addr.v — FciGraph._build_string_address, REGENERATED from the current source
   (gen/Gen_address_py.v), evaluated on the table that the REGENERATED loops of _get_Z_matrix
   leave (gen/Gen_zmatrix_py.v), is the model's address function Addr.addr — for which ZThm.v
   proves that it is the position of the string in the string table.  So: source Z matrix +
   source address formula = position in the lexicographic string table, every norb, nele, string. *)
From Coq Require Import NArith ZArith List Bool Lia.
From FQE Require Import GenBase Bits Addr GenLoops Equiv_zmat ZThm.
From FQE.gen Require Import Gen_zmatrix_py Gen_address_py.
Import ListNotations.
Local Open Scope Z_scope.

(* the table the reference path builds, as a function of its arguments (norb, nele) and a cell *)
Definition py_Z (norb nele r c : Z) : Z := final_cell (py_get_Z_matrix_assigns norb nele) r c.
Definition occ_fun (oc : list nat) (i : Z) : Z := Z.of_nat (nth (Z.to_nat i) oc 0%nat).

Lemma combine_seq_nth (oc : list nat) : forall off,
  combine (seq off (length oc)) oc = map (fun i => (i, nth (i - off) oc 0%nat)) (seq off (length oc)).
Proof.
  induction oc as [|o oc IH]; intros off; [reflexivity|].
  cbn [length seq combine map]. rewrite Nat.sub_diag. cbn [nth]. f_equal.
  rewrite IH. apply map_ext_in. intros i Hi. apply in_seq in Hi.
  replace (i - off)%nat with (S (i - S off)) by lia. reflexivity.
Qed.

Lemma fold_left_add_map {A} (h : A -> Z) (l : list A) : forall acc,
  fold_left (fun a x => a + h x) l acc = fold_left Z.add (map h l) acc.
Proof. induction l as [|x l IH]; intros acc; [reflexivity|]. cbn [fold_left map]. apply IH. Qed.

Theorem py_address_is_model (norb nele : nat) (oc : list nat) :
  length oc = nele -> (forall o, In o oc -> (o < norb)%nat) ->
  py_build_string_address py_Z (Z.of_nat nele) (Z.of_nat norb) (occ_fun oc) = addr_z (zmat norb nele) oc.
Proof.
  intros Hl Ho. unfold py_build_string_address, addr_z. cbv zeta. unfold zsum.
  rewrite Z.sub_0_r, Nat2Z.id.
  rewrite (fold_left_add_map (fun i => py_Z (Z.of_nat norb) (Z.of_nat nele) (0 + Z.of_nat i) (occ_fun oc (0 + Z.of_nat i))) (seq 0 nele) 0).
  rewrite combine_seq_nth, map_map, Hl. f_equal.
  apply map_ext_in. intros i Hi. apply in_seq in Hi. cbn [fst snd]. rewrite Nat.sub_0_r, Z.add_0_l.
  unfold py_Z, occ_fun. rewrite Nat2Z.id.
  apply py_zmat_is_model; [lia|]. apply Ho. apply nth_In. lia.
Qed.

(* with the address theorem of ZThm.v: the regenerated address of a string is its position in the string table *)
Theorem py_address_is_table_index (norb nele : nat) (s : N) : In s (strings norb nele) ->
  py_build_string_address py_Z (Z.of_nat nele) (Z.of_nat norb) (occ_fun (occ norb s)) = Z.of_nat (AddrThm.raddr norb nele s).
Proof.
  intros Hs. rewrite <- (addr_is_table_index norb nele s Hs). unfold addr.
  apply py_address_is_model.
  - (* a string of the table has nele occupied orbitals *)
    apply AddrThm.strings_spec in Hs. destruct Hs as [Hb Hp].
    unfold occ. rewrite <- Hp. rewrite (popcount_spec norb s Hb). unfold cnt_range. rewrite Nat.sub_0_r. reflexivity.
  - intros o Hoc. unfold occ in Hoc. apply filter_In in Hoc. destruct Hoc as [Hoc _]. apply in_seq in Hoc. lia.
Qed.
