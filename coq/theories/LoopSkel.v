(* LoopSkel.v — C16: the shape of a polynomial propagator's loop
       for order in range(lo, limit): [accumulate] ; test ; [accumulate]   else: raise
   as a record that the translator fills in from the current source, and what such a record MEANS
   (run_skel), for every setting of its fields. *)
From Coq Require Import QArith List Bool Arith Lia.
From FQE Require Import Poly.
Local Close Scope Q_scope.
Local Open Scope nat_scope.

Inductive break_rule := BreakOnSmall | BreakOnTwoConsecutiveSmall.
Record skel := { sk_lo : nat; sk_rule : break_rule; sk_add_before_test : bool; sk_strict : bool; sk_else_raises : bool }.

Section Run.
Variable A : Type.
Variable size : nat -> Q.
Variable add : A -> nat -> A.
Variable acc : Q.

Definition small_with (strict : bool) (k : nat) : bool :=
  if strict then Qle_bool (size k) acc && negb (Qeq_bool (size k) acc) else Qle_bool (size k) acc.

Fixpoint go (sk : skel) (fuel k : nat) (prev : bool) (s : A) : outcome A :=
  match fuel with
  | O => if sk_else_raises sk then LimitReached else Ok (k - 1) s
  | S f =>
    let s1 := if sk_add_before_test sk then add s k else s in
    let sm := small_with (sk_strict sk) k in
    let stop := match sk_rule sk with BreakOnSmall => sm | BreakOnTwoConsecutiveSmall => sm && prev end in
    if stop then Ok k s1 else go sk f (S k) sm (if sk_add_before_test sk then s1 else add s1 k)
  end.

Definition run_skel (sk : skel) (limit : nat) (s0 : A) : outcome A := go sk (limit - sk_lo sk) (sk_lo sk) false s0.

Definition taylor_skel : skel :=
  {| sk_lo := 1; sk_rule := BreakOnSmall; sk_add_before_test := true; sk_strict := true; sk_else_raises := true |}.
Definition cheb_skel : skel :=
  {| sk_lo := 2; sk_rule := BreakOnTwoConsecutiveSmall; sk_add_before_test := true; sk_strict := true; sk_else_raises := true |}.

Lemma go_taylor fuel : forall k prev s, go taylor_skel fuel k prev s = taylor_from A size add acc fuel k s.
Proof.
  induction fuel as [|f IH]; intros k prev s; [reflexivity|].
  cbn [go taylor_from taylor_skel sk_add_before_test sk_strict sk_rule sk_else_raises small_with].
  unfold small. destruct (Qle_bool (size k) acc && negb (Qeq_bool (size k) acc)); [reflexivity|apply IH].
Qed.

Theorem run_taylor_skel limit s0 : run_skel taylor_skel limit s0 = taylor A size add acc limit s0.
Proof. unfold run_skel, taylor. cbn [taylor_skel sk_lo]. apply go_taylor. Qed.

Lemma go_cheb fuel : forall k prev s, go cheb_skel fuel k prev s = cheb_from A size add acc fuel k prev s.
Proof.
  induction fuel as [|f IH]; intros k prev s; [reflexivity|].
  cbn [go cheb_from cheb_skel sk_add_before_test sk_strict sk_rule sk_else_raises small_with].
  unfold small. destruct (Qle_bool (size k) acc && negb (Qeq_bool (size k) acc) && prev); [reflexivity|apply IH].
Qed.

Theorem run_cheb_skel limit s0 : run_skel cheb_skel limit s0 = cheb A size add acc limit s0.
Proof. unfold run_skel, cheb. cbn [cheb_skel sk_lo]. apply go_cheb. Qed.
End Run.
