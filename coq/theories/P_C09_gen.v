(* P_C09_gen.v — the guard GENERATED from fqe/util.py:alpha_beta_electrons *)
From Coq Require Import ZArith List Bool Lia.
From FQE Require Import Ctor Equiv_guards.
From FQE.gen Require Import Gen_util_guards.
Local Open Scope Z_scope.

Theorem C09_py_alpha_beta_electrons : forall nele ms a b,
  py_alpha_beta_electrons nele ms = Some (a, b) <-> (0 <= a /\ 0 <= b /\ a + b = nele /\ a - b = ms).
Proof. exact py_alpha_beta_some. Qed.
Print Assumptions C09_py_alpha_beta_electrons.

Theorem C09_py_alpha_beta_is_spec : forall nele ms, py_alpha_beta_electrons nele ms = alpha_beta nele ms.
Proof. exact py_alpha_beta_eq. Qed.
Print Assumptions C09_py_alpha_beta_is_spec.
