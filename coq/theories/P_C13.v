(* P_C13.v — C13: index arithmetic of the kernels stays inside the buffers, for every
   valid shape (no bound on sizes). *)
From Coq Require Import ZArith List Bool Arith Lia.
From FQE Require Import Bounds.
Import ListNotations.

Theorem C13_batch_in_bounds : forall lenb nbatch, (0 <= lenb)%Z -> (0 <= nbatch < nbin lenb)%Z ->
  (0 <= clenb lenb nbatch /\ nbatch * STRIDE + clenb lenb nbatch <= lenb /\ (0 < lenb -> 0 < clenb lenb nbatch))%Z.
Proof. exact batch_in_bounds. Qed.
Print Assumptions C13_batch_in_bounds.

Theorem C13_batches_cover : forall lenb, (0 < lenb -> (nbin lenb - 1) * STRIDE < lenb <= nbin lenb * STRIDE)%Z.
Proof. exact batches_cover. Qed.
Print Assumptions C13_batches_cover.

Theorem C13_batched_access_in_bounds : forall lena lenb idx nbatch k,
  (0 <= lenb -> 0 <= idx < lena -> 0 <= nbatch < nbin lenb -> 0 <= k < clenb lenb nbatch ->
   0 <= idx * lenb + nbatch * STRIDE + k < lena * lenb)%Z.
Proof. exact batched_access_in_bounds. Qed.
Print Assumptions C13_batched_access_in_bounds.

Theorem C13_row_major_in_bounds : forall rows cols i j,
  (0 <= i < rows -> 0 <= j < cols -> 0 <= i * cols + j < rows * cols)%Z.
Proof. exact row_major_in_bounds. Qed.
Print Assumptions C13_row_major_in_bounds.

Theorem C13_partial_index_no_overflow : forall a b i j,
  (0 <= i < a -> 0 <= j < b -> a * b <= INT_MAX -> 0 <= i * b <= INT_MAX /\ 0 <= i * b + j <= INT_MAX)%Z.
Proof. exact partial_index_no_overflow. Qed.
Print Assumptions C13_partial_index_no_overflow.

Theorem C13_four_index_no_overflow : forall n nia nib i j,
  (0 <= i < n -> 0 <= j < n -> 0 <= nia -> 0 <= nib -> n * n * nia * nib <= INT_MAX ->
   0 <= i * nia * nib * n + j * nia * nib <= INT_MAX)%Z.
Proof. exact four_index_no_overflow. Qed.
Print Assumptions C13_four_index_no_overflow.

Theorem C13_orbital_shift_defined : forall norb i, (0 <= i < norb -> norb <= 64 -> 0 <= i < 64 /\ 0 <= i + 1 <= 64)%Z.
Proof. exact orbital_shift_defined. Qed.
Print Assumptions C13_orbital_shift_defined.

Theorem C13_generator_shift_undefined_at_64_refuted : ~ (0 <= 64 < 64)%Z.
Proof. exact generator_shift_undefined_at_64. Qed.
Print Assumptions C13_generator_shift_undefined_at_64_refuted.

(* capacity of a de-excitation row: lk = k (n - k + 1) entries, exactly *)
Theorem C13_deexc_row_count : forall t, reaching t = count_true t * S (length t - count_true t).
Proof. exact deexc_row_count. Qed.
Print Assumptions C13_deexc_row_count.
