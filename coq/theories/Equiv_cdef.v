(* Equiv_cdef.v — definedness of the header's inline helpers as parsed from the current source:
   for every 64-bit string and all positions below 64 their evaluation under C semantics never hits an
   out-of-range shift count, a signed overflow or a failing conversion (C13: "shift counts ... defined"). *)
From Coq Require Import ZArith List Bool Lia.
From FQE Require Import GenBase CExpr.
From FQE.gen Require Import Gen_bitstring_h_ast.
Import ListNotations.
Local Open Scope Z_scope.

Lemma between_defined_tab : tabdef2 c_ast_count_bits_between = true.
Proof. vm_compute. reflexivity. Qed.
Theorem c_ast_count_bits_between_defined s i j : 0 <= s < 2 ^ 64 -> 0 <= i < 64 -> 0 <= j < 64 -> i <> j ->
  exists v, cfun_eval c_ast_count_bits_between s [i; j] = Some v.
Proof. apply tabdef2_ok. exact between_defined_tab. Qed.

Lemma above_defined_tab : tabdef1 c_ast_count_bits_above = true.
Proof. vm_compute. reflexivity. Qed.
Theorem c_ast_count_bits_above_defined s i : 0 <= s < 2 ^ 64 -> 0 <= i < 64 ->
  exists v, cfun_eval c_ast_count_bits_above s [i] = Some v.
Proof. apply tabdef1_ok. exact above_defined_tab. Qed.
