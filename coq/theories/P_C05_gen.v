(* P_C05_gen.v — C05, helper clause: theorems about the definitions GENERATED from
   fqe/bitstring.py and fqe/lib/bitstring.h on this run. Nothing but statements
   closed by `exact`, each followed by Print Assumptions. *)
From Coq Require Import NArith ZArith.
From FQE Require Import Bits GenBase Equiv_bits Addr Equiv_binom.
From FQE.gen Require Import Gen_bitstring_py Gen_bitstring_h Gen_settings Gen_binom_h.
From Coq Require Import List.
Local Open Scope Z_scope.

Theorem C05_py_count_bits_between : forall s i j, 0 <= s < 2 ^ 64 -> 0 <= i < 64 -> 0 <= j < 64 -> i <> j ->
  py_count_bits_between s i j = Z.of_nat (cnt_between (Z.to_N s) (Z.to_nat i) (Z.to_nat j)).
Proof. exact py_count_bits_between_ok. Qed.
Print Assumptions C05_py_count_bits_between.

Theorem C05_py_count_bits_above : forall s i, 0 <= s < 2 ^ 64 -> 0 <= i < 64 ->
  py_count_bits_above s i = Z.of_nat (cnt_above64 (Z.to_N s) (Z.to_nat i)).
Proof. exact py_count_bits_above_ok. Qed.
Print Assumptions C05_py_count_bits_above.

Theorem C05_py_count_bits_below : forall s i, 0 <= s < 2 ^ 64 -> 0 <= i < 64 ->
  py_count_bits_below s i = Z.of_nat (cnt_below (Z.to_N s) (Z.to_nat i)).
Proof. exact py_count_bits_below_ok. Qed.
Print Assumptions C05_py_count_bits_below.

Theorem C05_c_count_bits_between : forall s i j, 0 <= s < 2 ^ 64 -> 0 <= i < 64 -> 0 <= j < 64 -> i <> j ->
  c_count_bits_between s i j = Z.of_nat (cnt_between (Z.to_N s) (Z.to_nat i) (Z.to_nat j)).
Proof. exact c_count_bits_between_ok. Qed.
Print Assumptions C05_c_count_bits_between.

Theorem C05_c_count_bits_above : forall s i, 0 <= s < 2 ^ 64 -> 0 <= i < 64 ->
  c_count_bits_above s i = Z.of_nat (cnt_above64 (Z.to_N s) (Z.to_nat i)).
Proof. exact c_count_bits_above_ok. Qed.
Print Assumptions C05_c_count_bits_above.

Theorem C05_between_diag_agree : forall s i, 0 <= i < 64 ->
  py_count_bits_between s i i = c_count_bits_between s i i.
Proof. exact between_diag_agree. Qed.
Print Assumptions C05_between_diag_agree.

Theorem C05_py_set_bit : forall s i, 0 <= i < 64 -> py_set_bit s i = Z.lor s (2 ^ i).
Proof. exact py_set_bit_ok. Qed.
Print Assumptions C05_py_set_bit.

Theorem C05_c_SET_BIT : forall s i, 0 <= i < 64 -> c_SET_BIT s i = Z.lor s (2 ^ i).
Proof. exact c_SET_BIT_ok. Qed.
Print Assumptions C05_c_SET_BIT.

Theorem C05_py_get_bit : forall s i, 0 <= i < 64 -> py_get_bit s i = Z.land s (2 ^ i).
Proof. exact py_get_bit_ok. Qed.
Print Assumptions C05_py_get_bit.

Theorem C05_c_CHECK_BIT : forall s i, 0 <= i < 64 -> c_CHECK_BIT s i = Z.land s (2 ^ i).
Proof. exact c_CHECK_BIT_ok. Qed.
Print Assumptions C05_c_CHECK_BIT.

Theorem C05_settings_consts : py_global_max_norb = 64 /\ py_c_string_max_norb = 63.
Proof. exact settings_consts. Qed.
Print Assumptions C05_settings_consts.

(* the generic lemma everything above rests on: counting through a range mask *)
Theorem C05_popcount_land_range : forall s lo hi n, (hi <= n)%nat -> (s < 2 ^ N.of_nat n)%N ->
  popcount (N.land s (range_mask lo hi)) = cnt_range s lo hi.
Proof. exact popcount_land_range. Qed.
Print Assumptions C05_popcount_land_range.

(* the binomial table of fqe/lib/binom.h *)
Theorem C05_c_binom_table_correct : forall n k v, In (n, k, v) c_binom_table ->
  0 <= k <= n /\ n <= 64 /\ v = binomZ n k /\ 0 <= v < 2 ^ 64.
Proof. exact binom_table_correct. Qed.
Print Assumptions C05_c_binom_table_correct.

Theorem C05_c_binom_table_complete : forall n k, 0 <= k <= n -> n <= 64 -> exists v, In (n, k, v) c_binom_table.
Proof. exact binom_table_complete. Qed.
Print Assumptions C05_c_binom_table_complete.
