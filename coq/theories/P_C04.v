(* P_C04.v — C04: the only place where the two paths exchange data in different
   integer widths: bit masks handed to the C kernel evaluate_map_each through a
   ctypes c_int (32-bit, truncating) and widened back to uint64_t in C
   (sign extension).  Lossless exactly for masks below 2^31 (and for the masks whose
   bits 31..63 are all set). *)
From Coq Require Import ZArith Lia.
Local Open Scope Z_scope.

Ltac Zify.zify_post_hook ::= Z.to_euclidean_division_equations.

Definition to_c_int (m : Z) : Z :=
  let r := m mod 4294967296 in if r <? 2147483648 then r else r - 4294967296.
Definition widen_u64 (i : Z) : Z := i mod 18446744073709551616.

Theorem C04_marshal_iff : forall m, 0 <= m < 18446744073709551616 ->
  (widen_u64 (to_c_int m) = m <-> (m < 2147483648 \/ 18446744071562067968 <= m)).
Proof.
  intros m H. unfold widen_u64, to_c_int. cbv zeta.
  destruct (Z.ltb_spec (m mod 4294967296) 2147483648); lia.
Qed.
Print Assumptions C04_marshal_iff.

Theorem C04_marshal_ok : forall m, 0 <= m < 2 ^ 31 -> widen_u64 (to_c_int m) = m.
Proof. intros m H. apply C04_marshal_iff; change (2 ^ 31) with 2147483648 in H; lia. Qed.
Print Assumptions C04_marshal_ok.

(* orbital index 31 is the first whose mask is damaged; a mask for orbital >= 32 is dropped *)
Theorem C04_marshal_refuted : exists m, 0 <= m < 2 ^ 64 /\ widen_u64 (to_c_int m) <> m.
Proof. exists (2 ^ 31). split; [split; [apply Z.pow_nonneg; lia|apply Z.pow_lt_mono_r; lia]|vm_compute; discriminate]. Qed.
Print Assumptions C04_marshal_refuted.

Theorem C04_mask_of_high_orbital_vanishes : forall k, 32 <= k < 64 -> to_c_int (2 ^ k) = 0.
Proof.
  intros k Hk. unfold to_c_int. cbv zeta.
  assert (E : (2 ^ k) mod 4294967296 = 0).
  { replace k with (32 + (k - 32)) by lia. rewrite Z.pow_add_r by lia.
    change (2 ^ 32) with 4294967296. rewrite Z.mul_comm. apply Z_mod_mult. }
  rewrite E. reflexivity.
Qed.
Print Assumptions C04_mask_of_high_orbital_vanishes.
