(* Bounds.v — C13: index arithmetic of the accelerated kernels, for every valid shape.
   C `int` is 32-bit two's complement, `/` truncates toward zero (Z.quot), shifts of
   64-bit values are defined for counts below 64. *)
From Coq Require Import ZArith List Bool Arith Lia.
Import ListNotations.
Local Open Scope Z_scope.

Definition STRIDE : Z := 450.

(* number of batches and length of a batch in lm_apply_array1_column_alpha & friends *)
Definition nbin (lenb : Z) : Z := Z.quot (lenb - 1) STRIDE + 1.
Definition clenb (lenb nbatch : Z) : Z := Z.min STRIDE (lenb - nbatch * STRIDE).

Theorem batch_in_bounds lenb nbatch : 0 <= lenb -> 0 <= nbatch < nbin lenb ->
  0 <= clenb lenb nbatch /\ nbatch * STRIDE + clenb lenb nbatch <= lenb /\
  (0 < lenb -> 0 < clenb lenb nbatch).
Proof.
  unfold nbin, clenb, STRIDE. intros Hl [H0 H1].
  destruct (Z.eq_dec lenb 0) as [->|Hne].
  - change (Z.quot (0 - 1) 450) with 0 in H1. assert (nbatch = 0) by lia. subst. simpl. lia.
  - assert (Hq : Z.quot (lenb - 1) 450 = (lenb - 1) / 450) by (apply Z.quot_div_nonneg; lia).
    rewrite Hq in H1. pose proof (Z.div_mod (lenb - 1) 450 ltac:(lia)) as D.
    pose proof (Z.mod_pos_bound (lenb - 1) 450 ltac:(lia)) as M. lia.
Qed.

(* the batches cover the row exactly once *)
Theorem batches_cover lenb : 0 < lenb -> (nbin lenb - 1) * STRIDE < lenb <= nbin lenb * STRIDE.
Proof.
  unfold nbin, STRIDE. intros Hl.
  assert (Hq : Z.quot (lenb - 1) 450 = (lenb - 1) / 450) by (apply Z.quot_div_nonneg; lia).
  rewrite Hq. pose proof (Z.div_mod (lenb - 1) 450 ltac:(lia)) as D.
  pose proof (Z.mod_pos_bound (lenb - 1) 450 ltac:(lia)) as M. lia.
Qed.

(* row-major addressing stays inside the array *)
Theorem row_major_in_bounds rows cols i j : 0 <= i < rows -> 0 <= j < cols -> 0 <= i * cols + j < rows * cols.
Proof. intros. nia. Qed.

(* batched row access: coeff[index*lenb + nbatch*450 + k], k < clenb *)
Theorem batched_access_in_bounds lena lenb idx nbatch k :
  0 <= lenb -> 0 <= idx < lena -> 0 <= nbatch < nbin lenb -> 0 <= k < clenb lenb nbatch ->
  0 <= idx * lenb + nbatch * STRIDE + k < lena * lenb.
Proof.
  intros Hl Hi Hb Hk. destruct (batch_in_bounds lenb nbatch Hl Hb) as [H1 [H2 _]].
  unfold STRIDE in *. nia.
Qed.

(* 32-bit int products do not overflow when the whole array fits *)
Definition INT_MAX : Z := 2147483647.
Theorem partial_index_no_overflow a b i j : 0 <= i < a -> 0 <= j < b -> a * b <= INT_MAX ->
  0 <= i * b <= INT_MAX /\ 0 <= i * b + j <= INT_MAX.
Proof. unfold INT_MAX. intros. nia. Qed.

Theorem four_index_no_overflow n nia nib i j : 0 <= i < n -> 0 <= j < n -> 0 <= nia -> 0 <= nib ->
  n * n * nia * nib <= INT_MAX -> 0 <= i * nia * nib * n + j * nia * nib <= INT_MAX.
Proof.
  unfold INT_MAX. intros Hi Hj Ha Hb H.
  set (p := nia * nib). assert (Hp : 0 <= p) by (unfold p; nia).
  replace (i * nia * nib * n + j * nia * nib) with ((i * n + j) * p) by (unfold p; ring).
  replace (n * n * nia * nib) with (n * n * p) in H by (unfold p; ring).
  assert (0 <= i * n + j <= n * n - 1) by nia.
  split; [nia|]. assert ((i * n + j) * p <= (n * n - 1) * p) by nia. nia.
Qed.

(* shift counts: every orbital index of a valid problem is a defined shift; the string
   generator additionally shifts by norb itself, defined only up to 63 orbitals *)
Theorem orbital_shift_defined norb i : 0 <= i < norb -> norb <= 64 -> 0 <= i < 64 /\ 0 <= i + 1 <= 64.
Proof. lia. Qed.
Theorem generator_shift_defined norb : 0 <= norb <= 63 -> 0 <= norb < 64.
Proof. lia. Qed.
Theorem generator_shift_undefined_at_64 : ~ (0 <= 64 < 64).
Proof. lia. Qed.

(* de-excitation rows: a target string with k of n orbitals occupied is reached by exactly
   k (n - k + 1) single excitations (i occupied in the target; j = i or j empty in the target) *)
Local Close Scope Z_scope.
Definition count_true (t : list bool) : nat := length (filter (fun b => b) t).
Definition reaching (t : list bool) : nat :=
  length (flat_map (fun i => if nth i t false
                             then filter (fun j => orb (Nat.eqb i j) (negb (nth j t false))) (seq 0 (length t))
                             else []) (seq 0 (length t))).

Lemma filter_length_partition {A} (f : A -> bool) l :
  length (filter f l) + length (filter (fun x => negb (f x)) l) = length l.
Proof. induction l as [|x l IH]; simpl; [reflexivity|]. destruct (f x); simpl; lia. Qed.

Lemma filter_nth_shift l : forall off,
  length (filter (fun j => nth (j - off) l false) (seq off (length l))) = count_true l.
Proof.
  unfold count_true. induction l as [|b l IH]; intros off; [reflexivity|].
  change (length (b :: l)) with (S (length l)). rewrite <- cons_seq.
  cbn [filter]. rewrite Nat.sub_diag. cbn [nth].
  rewrite (filter_ext_in _ (fun j => nth (j - S off) l false)).
  2:{ intros j Hj. apply in_seq in Hj. replace (j - off) with (S (j - S off)) by lia. reflexivity. }
  destruct b; cbn [length filter]; rewrite IH; reflexivity.
Qed.

Lemma seq_nth_filter (t : list bool) :
  length (filter (fun j => nth j t false) (seq 0 (length t))) = count_true t.
Proof.
  rewrite <- (filter_nth_shift t 0). f_equal. apply filter_ext. intros j. rewrite Nat.sub_0_r. reflexivity.
Qed.

Lemma row_count (t : list bool) i : i < length t -> nth i t false = true ->
  length (filter (fun j => orb (Nat.eqb i j) (negb (nth j t false))) (seq 0 (length t))) = S (length t - count_true t).
Proof.
  intros Hi Ht.
  (* the predicate is "j = i" (exactly one j, and it is occupied) or "j empty": disjoint union *)
  assert (Hsplit : forall l, NoDup l ->
            length (filter (fun j => orb (Nat.eqb i j) (negb (nth j t false))) l) =
            (if existsb (Nat.eqb i) l then 1 else 0) + length (filter (fun j => negb (nth j t false)) l)).
  { induction l as [|j l IH]; intros Hnd; simpl; [reflexivity|].
    inversion Hnd; subst. specialize (IH H2).
    destruct (Nat.eqb_spec i j) as [->|Hne]; simpl.
    - rewrite Ht. simpl. rewrite IH.
      assert (existsb (Nat.eqb j) l = false).
      { destruct (existsb (Nat.eqb j) l) eqn:E; [|reflexivity]. apply existsb_exists in E. destruct E as [x [Hx Ex]].
        apply Nat.eqb_eq in Ex. subst. contradiction. }
      rewrite H. lia.
    - destruct (nth j t false); simpl; rewrite IH; lia. }
  rewrite (Hsplit _ (seq_NoDup _ _)).
  assert (existsb (Nat.eqb i) (seq 0 (length t)) = true).
  { apply existsb_exists. exists i. split; [apply in_seq; lia|apply Nat.eqb_refl]. }
  rewrite H.
  pose proof (filter_length_partition (fun j => nth j t false) (seq 0 (length t))) as P.
  rewrite seq_nth_filter, seq_length in P. lia.
Qed.

Theorem deexc_row_count (t : list bool) : reaching t = count_true t * S (length t - count_true t).
Proof.
  unfold reaching.
  assert (G : forall l, (forall i, In i l -> i < length t) ->
            length (flat_map (fun i => if nth i t false
                                       then filter (fun j => orb (Nat.eqb i j) (negb (nth j t false))) (seq 0 (length t))
                                       else []) l) =
            length (filter (fun i => nth i t false) l) * S (length t - count_true t)).
  { induction l as [|i l IH]; intros Hl; simpl; [reflexivity|].
    rewrite app_length, IH by (intros; apply Hl; right; assumption).
    destruct (nth i t false) eqn:E; simpl; [|reflexivity].
    rewrite (row_count t i (Hl i (or_introl eq_refl)) E). lia. }
  rewrite G by (intros i Hi; apply in_seq in Hi; lia).
  rewrite seq_nth_filter. reflexivity.
Qed.
