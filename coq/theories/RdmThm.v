(* RdmThm.v — C03: matrix elements of operator strings inherit the canonical anticommutation
   relations: exchanging two adjacent creators (or annihilators) of different spin orbitals anywhere in the
   pattern flips the sign of <bra| ... |ket>, for every bra, ket, pattern length and determinant length,
   over any commutative ring with conjugation (so every RDM tensor has these antisymmetries). *)
From Coq Require Import List Bool Arith Lia Ring.
From FQE Require Import Car Fock Sort.
Import ListNotations.

Section RdmSym.
Variable R : Type.
Variables (rO rI : R) (radd rmul rsub : R -> R -> R) (ropp : R -> R).
Hypothesis Rth : ring_theory rO rI radd rmul rsub ropp (@eq R).
Add Ring Rr_rdm : Rth.
Variable rconj : R -> R.

Notation coeff := (coeff R rO radd).
Notation act_string := (act_string R ropp).
Notation inner := (inner R rO radd rmul rconj).
Notation vscale := (vscale R rmul).

Theorem matel_swap_anticommuting x y a b (bra ket : vec R) : anticomm x y ->
  inner bra (act_string (a ++ [x; y] ++ b) ket) = ropp (inner bra (act_string (a ++ [y; x] ++ b) ket)).
Proof.
  intros A.
  rewrite (inner_proper_r R rO radd rmul rconj bra _ (vscale (ropp rI) (act_string (a ++ [y; x] ++ b) ket))).
  - rewrite (inner_vscale_r R rO rI radd rmul rsub ropp Rth rconj). ring.
  - intros d. rewrite (coeff_vscale R rO rI radd rmul rsub ropp Rth).
    unfold Fock.act_string.
    rewrite (coeff_lift_sneg R rO rI radd rmul rsub ropp Rth _ (string_fn (a ++ [y; x] ++ b))).
    + ring.
    + intros e. apply string_swap_adjacent. exact A.
Qed.

Corollary matel_antisymmetric_creators p q a b bra ket : p <> q ->
  inner bra (act_string (a ++ [mkop p true; mkop q true] ++ b) ket)
  = ropp (inner bra (act_string (a ++ [mkop q true; mkop p true] ++ b) ket)).
Proof. intros H. apply matel_swap_anticommuting. apply anticomm_diff_pos. exact H. Qed.

Corollary matel_antisymmetric_annihilators p q a b bra ket : p <> q ->
  inner bra (act_string (a ++ [mkop p false; mkop q false] ++ b) ket)
  = ropp (inner bra (act_string (a ++ [mkop q false; mkop p false] ++ b) ket)).
Proof. intros H. apply matel_swap_anticommuting. apply anticomm_diff_pos. exact H. Qed.
End RdmSym.
