(* TableThm.v — C01 / C05: what the table-driven one-body kernels rely on, proved for every
   orbital count and every pair of strings.

   A determinant of the model is  rev (bits norb a) ++ rev (bits norb b)  (alpha block left of
   the beta block, highest orbital first).  FQE's excitation tables are built per spin string:
   entry (i, j) of a string s is the target string  s - j + i  with the sign bit
   odd (count_bits_between s i j)  (Maps.exc_entry; MapsThm.exc_entry_is_car relates it to the CAR
   on the ASCENDING list bits n s).  The kernels then use the alpha table on the row index and
   the beta table on the column index, with no further sign.  Here:

     * alpha_excitation / beta_excitation:  a†_i a_j of either spin acts on |a, b> exactly as the
       table entry of that spin's string says; in particular the beta excitation does not see the
       alpha electrons and vice versa;
     * alpha_annihilation / beta_annihilation: the sign of a single annihilation is
       count_bits_above for alpha and  n_alpha + count_bits_above  for beta (the phase the
       sector-changing kernels apply);
     * apply1_tables_sound: the push-forward built from those table entries (apply1) has, for
       every one-body matrix h over any commutative ring and every sparse vector, the same
       coefficients as the action of  sum_ij h_ij (a†_ia a_ja + a†_ib a_jb). *)
From Coq Require Import NArith List Bool Arith Lia Ring.
From FQE Require Import Car Fock Bits Addr Maps MapsThm.
Import ListNotations.

Definition cnt_true (x : det) : nat := length (filter (fun b : bool => b) x).

Lemma cnt_true_app x y : cnt_true (x ++ y) = cnt_true x + cnt_true y.
Proof. unfold cnt_true. rewrite filter_app, app_length. reflexivity. Qed.

Lemma cnt_true_rev x : cnt_true (rev x) = cnt_true x.
Proof.
  induction x as [|b r IH]; [reflexivity|]. simpl. rewrite cnt_true_app, IH.
  unfold cnt_true. simpl. destruct b; simpl; lia.
Qed.

Lemma pb_firstn p : forall d, parity_before p d = Nat.odd (cnt_true (firstn p d)).
Proof.
  induction p as [|p IH]; intros [|b r]; try reflexivity.
  cbn [parity_before firstn]. rewrite IH. unfold cnt_true. cbn [filter].
  destruct b; cbn [length xorb].
  - rewrite Nat.odd_succ, <- Nat.negb_odd. destruct (Nat.odd _); reflexivity.
  - destruct (Nat.odd _); reflexivity.
Qed.

Lemma pb_app_l p x y : p <= length x -> parity_before p (x ++ y) = parity_before p x.
Proof.
  intros H. rewrite !pb_firstn, firstn_app. replace (p - length x) with 0 by lia.
  simpl. rewrite app_nil_r. reflexivity.
Qed.

Lemma pb_app_r q x y :
  parity_before (length x + q) (x ++ y) = xorb (Nat.odd (cnt_true x)) (parity_before q y).
Proof. rewrite !pb_firstn, firstn_app_2, cnt_true_app, Nat.odd_add. reflexivity. Qed.

Lemma set_nth_app_l p v : forall x y, p < length x -> set_nth p v (x ++ y) = set_nth p v x ++ y.
Proof.
  induction p as [|p IH]; intros [|b r] y H; simpl in *; try lia; [reflexivity|].
  rewrite IH by lia. reflexivity.
Qed.

Lemma set_nth_app_r v x : forall q y, set_nth (length x + q) v (x ++ y) = x ++ set_nth q v y.
Proof. induction x as [|b r IH]; intros q y; simpl; [reflexivity|]. rewrite IH. reflexivity. Qed.

Lemma set_nth_rev v : forall l i, i < length l ->
  set_nth (length l - 1 - i) v (rev l) = rev (set_nth i v l).
Proof.
  induction l as [|b r IH]; intros i H; simpl in *; [lia|].
  destruct i as [|i].
  - replace (length r - 0 - 0) with (length (rev r) + 0) by (rewrite rev_length; lia).
    rewrite set_nth_app_r. reflexivity.
  - replace (length r - 0 - S i) with (length r - 1 - i) by lia.
    rewrite set_nth_app_l by (rewrite rev_length; lia). rewrite IH by lia. reflexivity.
Qed.

(* ---- excitations inside one block of a concatenation *)
Lemma exc_left i j x y : i <> j -> i < length x -> j < length x ->
  nth j x false = true -> nth i x false = false ->
  scomp (cre i) (ann j) (x ++ y)
  = Some (xorb (xorb (parity_before i x) (parity_before j x)) (j <? i),
          set_nth i true (set_nth j false x) ++ y).
Proof.
  intros Hij Hi Hj Nj Ni.
  rewrite (excitation_sign i j (x ++ y) Hij).
  - rewrite !pb_app_l by lia. rewrite (set_nth_app_l j) by lia.
    rewrite (set_nth_app_l i) by (rewrite set_nth_length; lia). reflexivity.
  - rewrite app_length. lia.
  - rewrite app_nth1 by lia. exact Nj.
  - rewrite app_nth1 by lia. exact Ni.
Qed.

Lemma exc_right i j x y : i <> j -> i < length y -> j < length y ->
  nth j y false = true -> nth i y false = false ->
  scomp (cre (length x + i)) (ann (length x + j)) (x ++ y)
  = Some (xorb (xorb (parity_before i y) (parity_before j y)) (j <? i),
          x ++ set_nth i true (set_nth j false y)).
Proof.
  intros Hij Hi Hj Nj Ni.
  rewrite (excitation_sign (length x + i) (length x + j) (x ++ y)).
  - rewrite !pb_app_r. rewrite (set_nth_app_r false x j). rewrite (set_nth_app_r true x i).
    f_equal. f_equal.
    replace (length x + j <? length x + i) with (j <? i).
    + destruct (Nat.odd (cnt_true x)), (parity_before i y), (parity_before j y), (j <? i); reflexivity.
    + destruct (Nat.ltb_spec j i), (Nat.ltb_spec (length x + j) (length x + i)); try reflexivity; lia.
  - lia.
  - rewrite app_length. lia.
  - rewrite app_nth2 by lia. replace (length x + j - length x) with j by lia. exact Nj.
  - rewrite app_nth2 by lia. replace (length x + i - length x) with i by lia. exact Ni.
Qed.

(* ---- the descending layout of one spin string *)
Lemma bits_length n s : length (bits n s) = n.
Proof. unfold bits. rewrite map_length, seq_length. reflexivity. Qed.

Lemma skipn_seq k : forall off len, skipn k (seq off len) = seq (off + k) (len - k).
Proof.
  induction k as [|k IH]; intros off len; simpl.
  - rewrite Nat.add_0_r, Nat.sub_0_r. reflexivity.
  - destruct len as [|len]; simpl; [reflexivity|]. rewrite IH. f_equal. lia.
Qed.

Lemma cnt_true_map_tb s l : cnt_true (map (tb s) l) = length (filter (tb s) l).
Proof.
  unfold cnt_true. induction l as [|a l IH]; simpl; [reflexivity|].
  destruct (tb s a); simpl; rewrite IH; reflexivity.
Qed.

(* the sign of annihilating orbital i in the descending layout = parity of count_bits_above *)
Lemma pb_rev_bits n s i : i < n ->
  parity_before (n - 1 - i) (rev (bits n s)) = Nat.odd (cnt_range s (S i) n).
Proof.
  intros H. rewrite pb_firstn, firstn_rev, cnt_true_rev, bits_length.
  replace (n - (n - 1 - i)) with (S i) by lia.
  unfold bits. rewrite skipn_map, skipn_seq, cnt_true_map_tb. unfold cnt_range. reflexivity.
Qed.

Lemma nth_rev_bits n s i : i < n -> nth (n - 1 - i) (rev (bits n s)) false = tb s i.
Proof.
  intros H. rewrite rev_nth by (rewrite bits_length; lia). rewrite bits_length.
  replace (n - S (n - 1 - i)) with i by lia. apply nth_bits. exact H.
Qed.

Lemma between_from_above s n i j : i <> j -> i < n -> j < n -> tb s j = true -> tb s i = false ->
  xorb (xorb (Nat.odd (cnt_range s (S i) n)) (Nat.odd (cnt_range s (S j) n))) (n - 1 - j <? n - 1 - i)
  = Nat.odd (cnt_between s i j).
Proof.
  intros Hij Hi Hj Tj Ti. unfold cnt_between.
  destruct (Nat.lt_trichotomy i j) as [H|[H|H]]; [|contradiction|].
  - replace (n - 1 - j <? n - 1 - i) with true by (symmetry; apply Nat.ltb_lt; lia).
    rewrite Nat.min_l, Nat.max_r by lia.
    rewrite (cnt_range_split s (S i) j n) by lia. rewrite (cnt_range_split s j (S j) n) by lia.
    rewrite cnt_range_single, Tj. rewrite !odd_add. simpl.
    destruct (Nat.odd (cnt_range s (S i) j)), (Nat.odd (cnt_range s (S j) n)); reflexivity.
  - replace (n - 1 - j <? n - 1 - i) with false by (symmetry; apply Nat.ltb_ge; lia).
    rewrite Nat.min_r, Nat.max_l by lia.
    rewrite (cnt_range_split s (S j) i n) by lia. rewrite (cnt_range_split s i (S i) n) by lia.
    rewrite cnt_range_single, Ti. rewrite !odd_add. simpl.
    destruct (Nat.odd (cnt_range s (S j) i)), (Nat.odd (cnt_range s (S i) n)); reflexivity.
Qed.

Lemma target_rev_bits n s i j : i <> j -> i < n -> j < n ->
  set_nth (n - 1 - i) true (set_nth (n - 1 - j) false (rev (bits n s)))
  = rev (bits n (clrbit (setbit s i) j)).
Proof.
  intros Hij Hi Hj. rewrite (exc_entry_target_bits n s i j Hij Hi Hj).
  pose proof (bits_length n s) as L.
  rewrite <- L at 2. rewrite set_nth_rev by (rewrite L; exact Hj).
  assert (L2 : length (set_nth j false (bits n s)) = n) by (rewrite set_nth_length; exact L).
  rewrite <- L2 at 1. rewrite set_nth_rev by (rewrite L2; exact Hi). reflexivity.
Qed.

(* the model's determinant and operator positions (Model.det_of / Model.pos_of, restated here so
   that this file does not depend on the Gaussian-integer instance) *)
Definition det2 (norb : nat) (a b : N) : det := rev (bits norb a) ++ rev (bits norb b).
Definition pos2 (norb : nat) (beta : bool) (i : nat) : nat := (if beta then norb else 0) + (norb - 1 - i).

Lemma rev_bits_length n s : length (rev (bits n s)) = n.
Proof. rewrite rev_length. apply bits_length. Qed.

Theorem alpha_excitation norb a b i j : i <> j -> i < norb -> j < norb -> tb a j = true -> tb a i = false ->
  scomp (cre (pos2 norb false i)) (ann (pos2 norb false j)) (det2 norb a b)
  = Some (Nat.odd (cnt_between a i j), det2 norb (clrbit (setbit a i) j) b).
Proof.
  intros Hij Hi Hj Tj Ti. unfold pos2, det2. cbn [Nat.add].
  rewrite exc_left; try (rewrite rev_bits_length; lia); try lia.
  - rewrite !pb_rev_bits by lia. rewrite (between_from_above a norb i j) by assumption.
    rewrite target_rev_bits by assumption. reflexivity.
  - rewrite nth_rev_bits by lia. exact Tj.
  - rewrite nth_rev_bits by lia. exact Ti.
Qed.

Theorem beta_excitation norb a b i j : i <> j -> i < norb -> j < norb -> tb b j = true -> tb b i = false ->
  scomp (cre (pos2 norb true i)) (ann (pos2 norb true j)) (det2 norb a b)
  = Some (Nat.odd (cnt_between b i j), det2 norb a (clrbit (setbit b i) j)).
Proof.
  intros Hij Hi Hj Tj Ti. unfold pos2, det2.
  rewrite <- (rev_bits_length norb a) at 1 3.
  rewrite exc_right; try (rewrite rev_bits_length; lia); try lia.
  - rewrite !pb_rev_bits by lia. rewrite (between_from_above b norb i j) by assumption.
    rewrite target_rev_bits by assumption. reflexivity.
  - rewrite nth_rev_bits by lia. exact Tj.
  - rewrite nth_rev_bits by lia. exact Ti.
Qed.

(* number operators: diagonal, sign + *)
Theorem alpha_number norb a b i : i < norb -> tb a i = true ->
  scomp (cre (pos2 norb false i)) (ann (pos2 norb false i)) (det2 norb a b) = Some (false, det2 norb a b).
Proof.
  intros Hi Ti. apply number_entry. unfold pos2, det2. cbn [Nat.add].
  rewrite app_nth1 by (rewrite rev_bits_length; lia). rewrite nth_rev_bits by lia. exact Ti.
Qed.

Theorem beta_number norb a b i : i < norb -> tb b i = true ->
  scomp (cre (pos2 norb true i)) (ann (pos2 norb true i)) (det2 norb a b) = Some (false, det2 norb a b).
Proof.
  intros Hi Ti. apply number_entry. unfold pos2, det2.
  rewrite app_nth2 by (rewrite rev_bits_length; lia). rewrite rev_bits_length.
  replace (norb + (norb - 1 - i) - norb) with (norb - 1 - i) by lia.
  rewrite nth_rev_bits by lia. exact Ti.
Qed.

(* an excitation from an empty orbital, or into an occupied one, gives the zero vector *)
Lemma exc_none p q d : (nth q d false = false \/ (p <> q /\ nth p d false = true)) ->
  scomp (cre p) (ann q) d = None.
Proof.
  intros H. unfold scomp. destruct (ann q d) as [[s e]|] eqn:E; [|reflexivity].
  assert (Hq : nth q d false = true) by (apply ann_some_iff; eauto).
  destruct H as [H|[Hpq Hp]]; [congruence|].
  destruct (cre p e) as [[s' e']|] eqn:E2; [|reflexivity]. exfalso.
  assert (Hc : exists x, cre p e = Some x) by eauto. apply cre_some_iff in Hc. destruct Hc as [_ Hc].
  rewrite (ann_spec q d Hq) in E. inversion E; subst e.
  rewrite nth_set_nth_other in Hc by congruence. congruence.
Qed.

(* single annihilations: count_bits_above for alpha, n_alpha + count_bits_above for beta *)
Theorem alpha_annihilation norb a b j : j < norb -> tb a j = true ->
  ann (pos2 norb false j) (det2 norb a b)
  = Some (Nat.odd (cnt_range a (S j) norb), det2 norb (clrbit a j) b).
Proof.
  intros Hj Tj. unfold pos2, det2. cbn [Nat.add].
  rewrite ann_spec by (rewrite app_nth1 by (rewrite rev_bits_length; lia); rewrite nth_rev_bits by lia; exact Tj).
  rewrite pb_app_l by (rewrite rev_bits_length; lia). rewrite pb_rev_bits by lia.
  rewrite set_nth_app_l by (rewrite rev_bits_length; lia).
  f_equal. f_equal. f_equal.
  pose proof (bits_length norb a) as L. rewrite <- L at 1. rewrite set_nth_rev by (rewrite L; exact Hj).
  f_equal. apply nth_ext with (d := false) (d' := false).
  - rewrite set_nth_length, !bits_length. reflexivity.
  - intros p Hp. rewrite set_nth_length, bits_length in Hp.
    destruct (Nat.eq_dec j p) as [->|Hne].
    + rewrite nth_set_nth_same by (rewrite bits_length; exact Hp). rewrite nth_bits by exact Hp.
      rewrite tb_clrbit, Nat.eqb_refl. reflexivity.
    + rewrite nth_set_nth_other by exact Hne. rewrite !nth_bits by exact Hp. rewrite tb_clrbit.
      destruct (Nat.eqb_spec j p); [congruence|reflexivity].
Qed.

Lemma cnt_true_rev_bits n s : cnt_true (rev (bits n s)) = cnt_range s 0 n.
Proof. rewrite cnt_true_rev. unfold bits. rewrite cnt_true_map_tb. unfold cnt_range. rewrite Nat.sub_0_r. reflexivity. Qed.

Theorem beta_annihilation norb a b j : j < norb -> tb b j = true ->
  ann (pos2 norb true j) (det2 norb a b)
  = Some (xorb (Nat.odd (cnt_range a 0 norb)) (Nat.odd (cnt_range b (S j) norb)), det2 norb a (clrbit b j)).
Proof.
  intros Hj Tj. unfold pos2, det2.
  assert (Hn : nth (norb + (norb - 1 - j)) (rev (bits norb a) ++ rev (bits norb b)) false = true).
  { rewrite app_nth2 by (rewrite rev_bits_length; lia). rewrite rev_bits_length.
    replace (norb + (norb - 1 - j) - norb) with (norb - 1 - j) by lia. rewrite nth_rev_bits by lia. exact Tj. }
  rewrite ann_spec by exact Hn.
  replace (norb + (norb - 1 - j)) with (length (rev (bits norb a)) + (norb - 1 - j))
    by (rewrite rev_bits_length; reflexivity).
  rewrite pb_app_r, set_nth_app_r. rewrite pb_rev_bits by lia. rewrite cnt_true_rev_bits.
  f_equal. f_equal. f_equal.
  pose proof (bits_length norb b) as L. rewrite <- L at 1. rewrite set_nth_rev by (rewrite L; exact Hj).
  f_equal. apply nth_ext with (d := false) (d' := false).
  - rewrite set_nth_length, !bits_length. reflexivity.
  - intros p Hp. rewrite set_nth_length, bits_length in Hp.
    destruct (Nat.eq_dec j p) as [->|Hne].
    + rewrite nth_set_nth_same by (rewrite bits_length; exact Hp). rewrite nth_bits by exact Hp.
      rewrite tb_clrbit, Nat.eqb_refl. reflexivity.
    + rewrite nth_set_nth_other by exact Hne. rewrite !nth_bits by exact Hp. rewrite tb_clrbit.
      destruct (Nat.eqb_spec j p); [congruence|reflexivity].
Qed.

(* ------------------------------------------------------------------------------------------ *)
(* the table entry without the addresses (Maps.exc_entry = this entry + string addresses)        *)
Definition tab_entry (s : N) (i j : nat) : option (N * bool) :=
  if andb (tb s j) (negb (tb s i)) then Some (clrbit (setbit s i) j, Nat.odd (cnt_between s i j))
  else if andb (Nat.eqb i j) (tb s i) then Some (s, false)
  else None.

Lemma exc_entry_tab strs i j s :
  exc_entry strs i j s
  = match tab_entry s i j with
    | Some (t, sg) => Some (idx strs s, idx strs t, sg)
    | None => None
    end.
Proof.
  unfold exc_entry, tab_entry. destruct (andb (tb s j) (negb (tb s i))); [reflexivity|].
  destruct (andb (Nat.eqb i j) (tb s i)); reflexivity.
Qed.

Lemma nth_det2_alpha norb a b i : i < norb -> nth (pos2 norb false i) (det2 norb a b) false = tb a i.
Proof.
  intros H. unfold pos2, det2. cbn [Nat.add]. rewrite app_nth1 by (rewrite rev_bits_length; lia).
  apply nth_rev_bits. exact H.
Qed.

Lemma nth_det2_beta norb a b i : i < norb -> nth (pos2 norb true i) (det2 norb a b) false = tb b i.
Proof.
  intros H. unfold pos2, det2. rewrite app_nth2 by (rewrite rev_bits_length; lia). rewrite rev_bits_length.
  replace (norb + (norb - 1 - i) - norb) with (norb - 1 - i) by lia. apply nth_rev_bits. exact H.
Qed.

Lemma pos2_inj norb beta i j : i < norb -> j < norb -> pos2 norb beta i = pos2 norb beta j -> i = j.
Proof. unfold pos2. intros; lia. Qed.

Theorem tab_alpha norb a b i j : i < norb -> j < norb ->
  scomp (cre (pos2 norb false i)) (ann (pos2 norb false j)) (det2 norb a b)
  = match tab_entry a i j with Some (a', sg) => Some (sg, det2 norb a' b) | None => None end.
Proof.
  intros Hi Hj. unfold tab_entry.
  destruct (tb a j) eqn:Tj; destruct (tb a i) eqn:Ti; cbn [andb negb].
  - destruct (Nat.eqb_spec i j) as [->|Hne]; cbn [andb].
    + apply alpha_number; assumption.
    + apply exc_none. right. split.
      * intros E. apply Hne. eapply pos2_inj; eauto.
      * rewrite nth_det2_alpha by exact Hi. exact Ti.
  - apply alpha_excitation; try assumption. intros ->. congruence.
  - rewrite andb_true_r. destruct (Nat.eqb_spec i j) as [->|Hne]; [congruence|].
    apply exc_none. left. rewrite nth_det2_alpha by exact Hj. exact Tj.
  - rewrite andb_false_r. apply exc_none. left. rewrite nth_det2_alpha by exact Hj. exact Tj.
Qed.

Theorem tab_beta norb a b i j : i < norb -> j < norb ->
  scomp (cre (pos2 norb true i)) (ann (pos2 norb true j)) (det2 norb a b)
  = match tab_entry b i j with Some (b', sg) => Some (sg, det2 norb a b') | None => None end.
Proof.
  intros Hi Hj. unfold tab_entry.
  destruct (tb b j) eqn:Tj; destruct (tb b i) eqn:Ti; cbn [andb negb].
  - destruct (Nat.eqb_spec i j) as [->|Hne]; cbn [andb].
    + apply beta_number; assumption.
    + apply exc_none. right. split.
      * intros E. apply Hne. eapply pos2_inj; eauto.
      * rewrite nth_det2_beta by exact Hi. exact Ti.
  - apply beta_excitation; try assumption. intros ->. congruence.
  - rewrite andb_true_r. destruct (Nat.eqb_spec i j) as [->|Hne]; [congruence|].
    apply exc_none. left. rewrite nth_det2_beta by exact Hj. exact Tj.
  - rewrite andb_false_r. apply exc_none. left. rewrite nth_det2_beta by exact Hj. exact Tj.
Qed.

Lemma string_fn2 p q d : string_fn [mkop p true; mkop q false] d = scomp (cre p) (ann q) d.
Proof.
  cbn [string_fn]. apply scomp_ext; [reflexivity|]. intros e. unfold op_fn; cbn [odag opos].
  apply scomp_sid_r.
Qed.

Section Apply1.
Variable R : Type.
Variables (rO rI : R) (radd rmul rsub : R -> R -> R) (ropp : R -> R).
Hypothesis Rth : ring_theory rO rI radd rmul rsub ropp (@eq R).
Add Ring Rr_tab : Rth.

Notation coeff := (coeff R rO radd).
Notation act_string := (act_string R ropp).
Notation act_poly := (act_poly R rmul ropp).
Notation sgn := (sgn R ropp).
Notation lift := (lift R ropp).
Notation lift1 := (lift1 R ropp).
Notation vscale := (vscale R rmul).

Definition svec := list (N * N * R).
Definition vecof (norb : nat) (v : svec) : vec R :=
  map (fun x => (det2 norb (fst (fst x)) (snd (fst x)), snd x)) v.

(* what the one-body kernel does with one amplitude and one index pair: the alpha table moves the
   row, the beta table moves the column; the amplitude is multiplied by h_ij and the table's sign *)
Definition emit_ij (h : nat -> nat -> R) (x : N * N * R) (i j : nat) : svec :=
  (match tab_entry (fst (fst x)) i j with
   | Some (a', sg) => [(a', snd (fst x), sgn sg (rmul (h i j) (snd x)))]
   | None => [] end)
  ++
  (match tab_entry (snd (fst x)) i j with
   | Some (b', sg) => [(fst (fst x), b', sgn sg (rmul (h i j) (snd x)))]
   | None => [] end).

Definition emit (norb : nat) (h : nat -> nat -> R) (x : N * N * R) : svec :=
  flat_map (fun i => flat_map (fun j => emit_ij h x i j) (seq 0 norb)) (seq 0 norb).

Definition apply1 (norb : nat) (h : nat -> nat -> R) (v : svec) : svec := flat_map (emit norb h) v.

Definition one_body_ij (norb : nat) (h : nat -> nat -> R) (i j : nat) : poly R :=
  [(h i j, [mkop (pos2 norb false i) true; mkop (pos2 norb false j) false]);
   (h i j, [mkop (pos2 norb true i) true; mkop (pos2 norb true j) false])].

Definition one_body_poly (norb : nat) (h : nat -> nat -> R) : poly R :=
  flat_map (fun i => flat_map (fun j => one_body_ij norb h i j) (seq 0 norb)) (seq 0 norb).

Lemma coeff_flat_map_ext {A} (g1 g2 : A -> vec R) l d :
  (forall y, In y l -> coeff (g1 y) d = coeff (g2 y) d) ->
  coeff (flat_map g1 l) d = coeff (flat_map g2 l) d.
Proof.
  induction l as [|y l IH]; intros H; [reflexivity|]. cbn [flat_map].
  rewrite !(coeff_app R rO rI radd rmul rsub ropp Rth).
  rewrite (H y (or_introl eq_refl)). rewrite IH; [reflexivity|].
  intros z Hz. apply H. right. exact Hz.
Qed.

Lemma vecof_flat_map {A} norb (g : A -> svec) l :
  vecof norb (flat_map g l) = flat_map (fun y => vecof norb (g y)) l.
Proof.
  unfold vecof. induction l as [|y l IH]; [reflexivity|]. cbn [flat_map]. rewrite map_app, IH. reflexivity.
Qed.

Lemma act_poly_flat_map {A} (F : A -> poly R) l v :
  act_poly (flat_map F l) v = flat_map (fun y => act_poly (F y) v) l.
Proof.
  unfold Fock.act_poly. induction l as [|y l IH]; [reflexivity|]. cbn [flat_map]. rewrite flat_map_app, IH. reflexivity.
Qed.

Lemma coeff_act_poly_cons p x v d :
  coeff (act_poly p (x :: v)) d = radd (coeff (act_poly p [x]) d) (coeff (act_poly p v) d).
Proof.
  rewrite !(coeff_act_poly R rO rI radd rmul rsub ropp Rth).
  induction p as [|[c ops] p IH]; cbn [fold_right fst snd]; [ring|].
  rewrite IH. unfold Fock.act_string, Fock.lift. cbn [flat_map]. rewrite app_nil_r.
  rewrite (coeff_app R rO rI radd rmul rsub ropp Rth). ring.
Qed.

(* one amplitude, one index pair *)
Lemma emit_ij_sound norb h a b c i j d : i < norb -> j < norb ->
  coeff (vecof norb (emit_ij h (a, b, c) i j)) d
  = coeff (act_poly (one_body_ij norb h i j) [(det2 norb a b, c)]) d.
Proof.
  intros Hi Hj. unfold emit_ij, one_body_ij, Fock.act_poly, Fock.act_string, Fock.lift.
  cbn [flat_map fst snd]. rewrite !app_nil_r.
  unfold vecof. rewrite map_app. rewrite !(coeff_app R rO rI radd rmul rsub ropp Rth).
  unfold Fock.lift1. cbn [fst snd].
  rewrite !string_fn2. rewrite (tab_alpha norb a b i j Hi Hj), (tab_beta norb a b i j Hi Hj).
  destruct (tab_entry a i j) as [[a' sa]|]; destruct (tab_entry b i j) as [[b' sb]|];
    cbn [map Fock.vscale Fock.coeff fst snd];
    rewrite ?(sgn_mul R rO rI radd rmul rsub ropp Rth); reflexivity.
Qed.

Lemma emit_sound norb h x d :
  coeff (vecof norb (emit norb h x)) d
  = coeff (act_poly (one_body_poly norb h) [(det2 norb (fst (fst x)) (snd (fst x)), snd x)]) d.
Proof.
  destruct x as [[a b] c]. cbn [fst snd]. unfold emit, one_body_poly.
  rewrite vecof_flat_map, act_poly_flat_map. apply coeff_flat_map_ext. intros i Hi.
  rewrite vecof_flat_map, act_poly_flat_map. apply coeff_flat_map_ext. intros j Hj.
  apply in_seq in Hi. apply in_seq in Hj. apply emit_ij_sound; lia.
Qed.

(* THE REFINEMENT: the table-driven push-forward has the coefficients of the operator action *)
Theorem apply1_tables_sound norb h (v : svec) d :
  coeff (vecof norb (apply1 norb h v)) d = coeff (act_poly (one_body_poly norb h) (vecof norb v)) d.
Proof.
  unfold apply1. induction v as [|x v IH].
  - cbn [flat_map vecof map]. rewrite (coeff_act_poly R rO rI radd rmul rsub ropp Rth).
    induction (one_body_poly norb h) as [|[c ops] p IHp]; cbn [fold_right fst snd]; [reflexivity|].
    rewrite <- IHp. unfold Fock.act_string, Fock.lift. cbn [flat_map Fock.coeff]. ring.
  - cbn [flat_map]. unfold vecof at 1. rewrite map_app. fold (vecof norb (emit norb h x)).
    fold (vecof norb (flat_map (emit norb h) v)).
    rewrite (coeff_app R rO rI radd rmul rsub ropp Rth). rewrite IH.
    change (vecof norb (x :: v)) with ((det2 norb (fst (fst x)) (snd (fst x)), snd x) :: vecof norb v).
    rewrite coeff_act_poly_cons. rewrite emit_sound. reflexivity.
Qed.
End Apply1.

(* non-vacuity: a†_1a a_0a on |alpha {0,2}, beta {1}> of 3 orbitals: one electron in between -> sign - *)
Example tab_entry_example : tab_entry 5%N 1 0 = Some (6%N, false) /\ tab_entry 5%N 1 2 = Some (3%N, false)
  /\ tab_entry 5%N 0 0 = Some (5%N, false) /\ tab_entry 5%N 0 1 = None /\ tab_entry 13%N 1 3 = Some (7%N, true).
Proof. vm_compute. repeat split. Qed.
