(* ApplyThm.v — the executable oracle m_apply is the coefficient function of
   act_poly; scalar part acts once; strings shift the (n_alpha, n_beta) grading. *)
From Coq Require Import NArith ZArith List Bool Arith Lia Ring.
From FQE Require Import Car Fock GaussZ Bits Denote Model.
Import ListNotations.

Definition gact_poly := act_poly gz gzmul gzopp.
Definition gact_string := act_string gz gzopp.

Lemma gz_conj_O : gzconj gz0 = gz0. Proof. reflexivity. Qed.

(* 1. pull form = coefficient of the pushed-forward vector *)
Theorem coeff_pull_spec (p : poly gz) (v : gvec) (d : det) :
  coeff_pull p v d = gcoeff (gact_poly p v) d.
Proof.
  unfold gcoeff, gact_poly. rewrite (coeff_act_poly gz gz0 gz1 gzadd gzmul gzsub gzopp gz_ring).
  unfold coeff_pull. induction p as [|[c ops] p IH]; simpl; [reflexivity|].
  rewrite IH. f_equal. f_equal.
  rewrite (coeff_act_string gz gz0 gz1 gzadd gzmul gzsub gzopp gz_ring). reflexivity.
Qed.

(* 2. the scalar term contributes e0 * psi, exactly once *)
Theorem scalar_once (e0 : gz) (p : poly gz) (v : gvec) (d : det) :
  gcoeff (gact_poly ((e0, []) :: p) v) d = gzadd (gzmul e0 (gcoeff v d)) (gcoeff (gact_poly p v) d).
Proof.
  unfold gcoeff, gact_poly.
  rewrite !(coeff_act_poly gz gz0 gz1 gzadd gzmul gzsub gzopp gz_ring). simpl. f_equal. f_equal.
  rewrite (coeff_act_string gz gz0 gz1 gzadd gzmul gzsub gzopp gz_ring). simpl. reflexivity.
Qed.

(* 3. grading: ann lowers, cre raises the occupation of exactly its position *)
Definition nocc (d : det) : nat := length (filter (fun b => b) d).

Lemma ann_nocc p : forall d s d', ann p d = Some (s, d') -> S (nocc d') = nocc d.
Proof.
  unfold nocc. induction p as [|p IH]; intros [|b r] s d' H; simpl in H; try discriminate.
  - destruct b; inversion H; subst; reflexivity.
  - destruct (ann p r) as [[sg r']|] eqn:E; inversion H; subst. simpl.
    specialize (IH r sg r' E). destruct b; simpl; lia.
Qed.

Lemma cre_nocc p : forall d s d', cre p d = Some (s, d') -> nocc d' = S (nocc d).
Proof.
  intros d s d' H. apply ann_cre_inv in H. symmetry. eapply ann_nocc; eauto.
Qed.

(* occupation restricted to a set of positions (a spin block) *)
Fixpoint nocc_in (sel : nat -> bool) (k : nat) (d : det) : nat :=
  match d with
  | [] => 0
  | b :: r => (if andb b (sel k) then 1 else 0) + nocc_in sel (S k) r
  end.

Lemma ann_nocc_in sel p : forall k d s d', ann p d = Some (s, d') ->
  nocc_in sel k d = (if sel (k + p) then 1 else 0) + nocc_in sel k d'.
Proof.
  induction p as [|p IH]; intros k [|b r] s d' H; simpl in H; try discriminate.
  - destruct b; inversion H; subst. simpl. rewrite Nat.add_0_r. destruct (sel k); lia.
  - destruct (ann p r) as [[sg r']|] eqn:E; inversion H; subst. simpl.
    rewrite (IH (S k) r sg r' E). replace (S k + p) with (k + S p) by lia.
    destruct (sel (k + S p)); destruct (b && sel k); lia.
Qed.

Lemma cre_nocc_in sel p k d s d' : cre p d = Some (s, d') ->
  nocc_in sel k d' = (if sel (k + p) then 1 else 0) + nocc_in sel k d.
Proof. intros H. apply ann_cre_inv in H. eapply ann_nocc_in; eauto. Qed.

(* net change of the occupation inside `sel` produced by an operator string *)
Fixpoint string_shift (sel : nat -> bool) (ops : list lop) : Z :=
  match ops with
  | [] => 0%Z
  | o :: r => ((if sel (opos o) then (if odag o then 1 else -1) else 0) + string_shift sel r)%Z
  end.

Theorem string_grading sel ops : forall d s d', string_fn ops d = Some (s, d') ->
  Z.of_nat (nocc_in sel 0 d') = (Z.of_nat (nocc_in sel 0 d) + string_shift sel ops)%Z.
Proof.
  induction ops as [|o r IH]; intros d s d' H; simpl in *.
  - unfold sid in H. inversion H; subst. lia.
  - unfold scomp in H. destruct (string_fn r d) as [[s1 d1]|] eqn:E1; [|discriminate].
    destruct (op_fn o d1) as [[s2 d2]|] eqn:E2; [|discriminate]. inversion H; subst.
    specialize (IH d s1 d1 E1). unfold op_fn in E2. destruct (odag o).
    + apply (cre_nocc_in sel _ 0) in E2. simpl in E2. destruct (sel (opos o)); lia.
    + apply (ann_nocc_in sel _ 0) in E2. simpl in E2. destruct (sel (opos o)); lia.
Qed.

(* consequence: a string whose shift on a spin block is zero maps every
   determinant to a determinant with the same block occupation (sector
   preservation); one with non-zero shift leaves the sector, so its projection
   onto the sector vanishes. *)
Corollary string_preserves_sector sel ops d s d' :
  string_shift sel ops = 0%Z -> string_fn ops d = Some (s, d') ->
  nocc_in sel 0 d' = nocc_in sel 0 d.
Proof. intros H0 H. apply (string_grading sel) in H. lia. Qed.

Corollary string_leaves_sector sel ops d s d' :
  string_shift sel ops <> 0%Z -> string_fn ops d = Some (s, d') ->
  nocc_in sel 0 d' <> nocc_in sel 0 d.
Proof. intros H0 H. apply (string_grading sel) in H. lia. Qed.

(* the adjoint string has the opposite shift *)
Lemma string_shift_app sel a b : string_shift sel (a ++ b) = (string_shift sel a + string_shift sel b)%Z.
Proof. induction a as [|o a IH]; simpl; [reflexivity|rewrite IH; lia]. Qed.

Lemma string_shift_adj sel ops : string_shift sel (string_adj ops) = (- string_shift sel ops)%Z.
Proof.
  unfold string_adj. induction ops as [|o r IH]; simpl; [reflexivity|].
  rewrite string_shift_app, IH. cbn [string_shift op_adj opos odag]. destruct (sel (opos o)); destruct (odag o); cbn [negb]; lia.
Qed.

(* non-vacuity: a concrete 2-orbital example where the oracle produces a sign *)
Example apply_example :
  m_apply 2 [((1, 0)%Z, [(false, 0, true); (false, 1, false)])]
            [(2%N, 1%N, (3, 4)%Z)] [(1%N, 1%N); (2%N, 1%N)] = [(3, 4)%Z; (0, 0)%Z].
Proof. vm_compute. reflexivity. Qed.
