(* Equiv_ctors.v — the multi-sector constructors of fqe/_fqe_control.py, REGENERATED from the current
   source (gen/Gen_control_ctors.v: guard, loop bounds and the [nele, m_s, norb] triple appended per
   iteration, and which symmetry the result is marked as breaking), create exactly the sectors of
   Ctor.ctor_nc / Ctor.ctor_sc — the definitions P_C09 characterises as exact key sets — and refuse
   exactly the impossible requests.  Every electron number, s_z and (non-negative) orbital count. *)
From Coq Require Import ZArith List Bool Lia.
From FQE Require Import GenBase Addr GenLoops Ctor.
From FQE.gen Require Import Gen_control_ctors.
Import ListNotations.
Local Open Scope Z_scope.

(* what Wavefunction(param, ...) does with the triples: one sector each, or an exception *)
Definition sectors_of_params (ps : list (Z * Z * Z)) : option (list (Z * Z * Z * Z)) :=
  all_some (map (fun p => sector_of (fst (fst p)) (snd (fst p)) (snd p)) ps).

Definition run_ctor (params : option (list (Z * Z * Z))) : option (list (Z * Z * Z * Z)) :=
  match params with Some ps => sectors_of_params ps | None => None end.

Lemma zrange_same lo hi : GenLoops.zrange lo hi = Ctor.zrange lo hi.
Proof. reflexivity. Qed.

Lemma flat_map_single {A B} (f : A -> B) l : flat_map (fun x => [f x]) l = map f l.
Proof. induction l as [|x l IH]; [reflexivity|]. cbn [flat_map map app]. rewrite IH. reflexivity. Qed.

Theorem py_number_conserving_is_ctor nele norb : 0 <= norb ->
  run_ctor (py_get_number_conserving_wavefunction_params nele norb) = ctor_nc nele norb.
Proof.
  intros Hn. unfold py_get_number_conserving_wavefunction_params, ctor_nc. cbv zeta.
  rewrite Z.gtb_ltb.
  replace (norb <? 0) with false by (symmetry; apply Z.ltb_ge; lia). rewrite orb_false_r.
  destruct ((nele <? 0) || (2 * norb <? nele)); [reflexivity|].
  unfold run_ctor, sectors_of_params, ctor_nc_coded. cbv zeta.
  rewrite (flat_map_single (fun nbeta => (nele, nele - nbeta * 2, norb))), map_map. cbn [fst snd].
  rewrite zrange_same. reflexivity.
Qed.

Theorem py_spin_conserving_is_ctor sz norb : 0 <= norb ->
  run_ctor (py_get_spin_conserving_wavefunction_params sz norb) = ctor_sc sz norb.
Proof.
  intros Hn. unfold py_get_spin_conserving_wavefunction_params, ctor_sc. cbv zeta.
  rewrite Z.gtb_ltb.
  replace (norb <? 0) with false by (symmetry; apply Z.ltb_ge; lia). rewrite orb_false_r.
  destruct (norb <? Z.abs sz); [reflexivity|].
  unfold run_ctor, sectors_of_params, ctor_sc_coded. cbv zeta.
  rewrite (flat_map_single (fun nalpha => (2 * nalpha - sz, sz, norb))), map_map. cbn [fst snd].
  rewrite zrange_same, Z.geb_leb.
  destruct (Z.leb_spec 0 sz) as [H|H].
  - replace (sz <? 0) with false by (symmetry; apply Z.ltb_ge; lia). reflexivity.
  - replace (sz <? 0) with true by (symmetry; apply Z.ltb_lt; lia). reflexivity.
Qed.

(* the symmetry each constructor marks as broken *)
Theorem py_ctor_flags :
  py_get_number_conserving_wavefunction_broken_spin = true /\ py_get_number_conserving_wavefunction_broken_number = false /\
  py_get_spin_conserving_wavefunction_broken_spin = false /\ py_get_spin_conserving_wavefunction_broken_number = true.
Proof. repeat split; reflexivity. Qed.
