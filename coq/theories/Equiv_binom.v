(* Equiv_binom.v — the binomial table GENERATED from fqe/lib/binom.h equals the Pascal
   binomials on its whole domain 0 <= k <= n <= 64 (finite: 2145 entries, by reflection),
   contains every such pair, and every entry fits a uint64. *)
From Coq Require Import NArith ZArith List Bool Arith Lia.
From FQE Require Import GenBase Addr.
From FQE.gen Require Import Gen_binom_h.
Import ListNotations.
Local Open Scope Z_scope.

Definition entry_ok (e : Z * Z * Z) : bool :=
  match e with (n, k, v) =>
    (0 <=? k) && (k <=? n) && (n <=? 64) && (v =? binomZ n k) && (v <? 2 ^ 64) end.

Lemma table_entries_ok : forallb entry_ok c_binom_table = true.
Proof. vm_compute. reflexivity. Qed.

Definition has_entry (n k : Z) : bool :=
  existsb (fun e => match e with (n', k', _) => (n' =? n) && (k' =? k) end) c_binom_table.

Lemma table_complete : forallb (fun n => forallb (fun k => if k <=? n then has_entry n k else true)
                                  (map Z.of_nat (seq 0 65))) (map Z.of_nat (seq 0 65)) = true.
Proof. vm_compute. reflexivity. Qed.

Theorem binom_table_correct : forall n k v, In (n, k, v) c_binom_table ->
  0 <= k <= n /\ n <= 64 /\ v = binomZ n k /\ 0 <= v < 2 ^ 64.
Proof.
  intros n k v Hin. pose proof table_entries_ok as H. rewrite forallb_forall in H.
  specialize (H _ Hin). unfold entry_ok in H.
  repeat (apply andb_true_iff in H; destruct H as [H ?]).
  apply Z.leb_le in H. apply Z.leb_le in H3. apply Z.leb_le in H2. apply Z.eqb_eq in H1. apply Z.ltb_lt in H0.
  repeat split; try lia. subst v. unfold binomZ.
  destruct ((n <? 0) || (k <? 0)); [lia|]. apply N2Z.is_nonneg.
Qed.

Theorem binom_table_complete : forall n k, 0 <= k <= n -> n <= 64 -> exists v, In (n, k, v) c_binom_table.
Proof.
  intros n k Hk Hn. pose proof table_complete as H. rewrite forallb_forall in H.
  assert (In n (map Z.of_nat (seq 0 65))).
  { replace n with (Z.of_nat (Z.to_nat n)) by lia. apply in_map. apply in_seq. lia. }
  specialize (H n H0). rewrite forallb_forall in H.
  assert (In k (map Z.of_nat (seq 0 65))).
  { replace k with (Z.of_nat (Z.to_nat k)) by lia. apply in_map. apply in_seq. lia. }
  specialize (H k H1). replace (k <=? n) with true in H by (symmetry; apply Z.leb_le; lia).
  unfold has_entry in H. apply existsb_exists in H. destruct H as [[[n' k'] v] [Hin Heq]].
  apply andb_true_iff in Heq. destruct Heq as [E1 E2]. apply Z.eqb_eq in E1. apply Z.eqb_eq in E2. subst.
  exists v. exact Hin.
Qed.
