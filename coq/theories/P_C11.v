(* P_C11.v — C11: caches are unobservable over every history, results depend only on
   argument values, only targets change.  (Generic over object values and cache keys;
   for FQE: keys = (norb, n_alpha, n_beta, dn_alpha, dn_beta) of cross-sector maps and
   (norb, nele) of Z matrices, canon = the tables of Maps.v / Addr.v.) *)
From Coq Require Import List Bool Arith Lia.
From FQE Require Import Heap.
Import ListNotations.

Theorem C11_history_agree :
  forall (val key res : Type) (key_eqb : key -> key -> bool),
  (forall a b, key_eqb a b = true <-> a = b) ->
  forall (canon : key -> res) (default : val) (h : list (op val key res)),
  Forall (extensional val key res) h ->
  forall s, Inv key res key_eqb canon (snd s) ->
  fst (fst (run_impl val key res key_eqb canon default s h)) = fst (run_spec val key res canon default (fst s) h) /\
  snd (run_impl val key res key_eqb canon default s h) = snd (run_spec val key res canon default (fst s) h).
Proof. exact history_agree. Qed.
Print Assumptions C11_history_agree.

Theorem C11_result_depends_on_args_only :
  forall (val key res : Type) (canon : key -> res) (default : val) p1 p2 (o : op val key res),
  map (pget val default p1) (srcs val key res o) = map (pget val default p2) (srcs val key res o) ->
  snd (step_spec val key res canon default p1 o) = snd (step_spec val key res canon default p2 o).
Proof. exact result_depends_on_args_only. Qed.
Print Assumptions C11_result_depends_on_args_only.

Theorem C11_impl_result_history_free :
  forall (val key res : Type) (key_eqb : key -> key -> bool),
  (forall a b, key_eqb a b = true <-> a = b) ->
  forall (canon : key -> res) (default : val) s1 s2 (o : op val key res),
  extensional val key res o -> Inv key res key_eqb canon (snd s1) -> Inv key res key_eqb canon (snd s2) ->
  map (pget val default (fst s1)) (srcs val key res o) = map (pget val default (fst s2)) (srcs val key res o) ->
  snd (step_impl val key res key_eqb canon default s1 o) = snd (step_impl val key res key_eqb canon default s2 o).
Proof. exact impl_result_history_free. Qed.
Print Assumptions C11_impl_result_history_free.

Theorem C11_frame :
  forall (val key res : Type) (key_eqb : key -> key -> bool) (canon : key -> res) (default : val) s (o : op val key res) j,
  tgt val key res o <> Some j ->
  pget val default (fst (fst (step_impl val key res key_eqb canon default s o))) j = pget val default (fst s) j.
Proof. exact frame_impl. Qed.
Print Assumptions C11_frame.

Theorem C11_poisoned_cache_refuted :
  exists (o : op nat nat nat) (c : cache nat nat),
    snd (step_impl nat nat nat Nat.eqb (fun k => k) 0 ([0], c) o) <> snd (step_spec nat nat nat (fun k => k) 0 [0] o).
Proof. exact poisoned_cache_refuted. Qed.
Print Assumptions C11_poisoned_cache_refuted.
