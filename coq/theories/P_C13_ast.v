(* P_C13_ast.v — C13: the inline bit helpers of the current fqe/lib/bitstring.h never execute an undefined
   operation (shift count >= width of the promoted left operand, signed overflow), for every string and
   all positions below 64 (C semantics of CExpr.v on the parsed source). *)
From Coq Require Import ZArith List Bool Lia.
From FQE Require Import GenBase CExpr Equiv_cdef.
From FQE.gen Require Import Gen_bitstring_h_ast.
Import ListNotations.
Local Open Scope Z_scope.

Theorem C13_count_bits_between_defined : forall s i j, 0 <= s < 2 ^ 64 -> 0 <= i < 64 -> 0 <= j < 64 -> i <> j ->
  exists v, cfun_eval c_ast_count_bits_between s [i; j] = Some v.
Proof. exact c_ast_count_bits_between_defined. Qed.
Print Assumptions C13_count_bits_between_defined.

Theorem C13_count_bits_above_defined : forall s i, 0 <= s < 2 ^ 64 -> 0 <= i < 64 ->
  exists v, cfun_eval c_ast_count_bits_above s [i] = Some v.
Proof. exact c_ast_count_bits_above_defined. Qed.
Print Assumptions C13_count_bits_above_defined.

(* the semantics does reject an undefined shift: 1u << 32 *)
Example C13_undefined_shift_is_rejected : ceval (XB OShl (XC TU32 1) (XC TI32 32)) 0 [] [] = None.
Proof. reflexivity. Qed.
