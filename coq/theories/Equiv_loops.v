(* Equiv_loops.v — the loops of Wavefunction.apply_generated_unitary, REGENERATED from the current source as loop
   skeletons (gen/Gen_propagator_loops.v: first order, break rule, accumulate-before-test, strict comparison,
   raise on exhaustion), MEAN the control flow Poly.v proves converge-or-raise for: for every term-size sequence,
   accuracy, expansion limit and accumulator. *)
From Coq Require Import QArith List Bool Arith.
From FQE Require Import Poly LoopSkel.
From FQE.gen Require Import Gen_propagator_loops.
Local Close Scope Q_scope.

Theorem py_taylor_loop_is_model (A : Type) size add acc limit (s0 : A) :
  run_skel A size add acc py_apply_generated_unitary_taylor_skel limit s0 = taylor A size add acc limit s0.
Proof. exact (run_taylor_skel A size add acc limit s0). Qed.

Theorem py_chebyshev_loop_is_model (A : Type) size add acc limit (s0 : A) :
  run_skel A size add acc py_apply_generated_unitary_chebyshev_skel limit s0 = cheb A size add acc limit s0.
Proof. exact (run_cheb_skel A size add acc limit s0). Qed.

(* hence converge-or-raise for the source's Taylor loop *)
Theorem py_taylor_converge_or_raise (A : Type) size add acc limit (s0 : A) :
  match run_skel A size add acc py_apply_generated_unitary_taylor_skel limit s0 with
  | Ok K v => 1 <= K < limit /\ small size acc K = true /\ (forall j, 1 <= j < K -> small size acc j = false)
              /\ v = partial A add 1 K s0
  | LimitReached => forall j, 1 <= j < limit -> small size acc j = false
  end.
Proof. rewrite py_taylor_loop_is_model. apply taylor_converge_or_raise. Qed.

Theorem py_chebyshev_two_consecutive (A : Type) size add acc limit (s0 : A) K v :
  run_skel A size add acc py_apply_generated_unitary_chebyshev_skel limit s0 = Ok K v ->
  3 <= K < limit /\ small size acc K = true /\ small size acc (K - 1) = true /\ v = partial A add 2 (K - 1) s0.
Proof. rewrite py_chebyshev_loop_is_model. apply cheb_two_consecutive. Qed.
