(* P_C13_zmat.v — C13: memory safety of the accelerated Z-matrix builder, on the loop nest REGENERATED from the
   current lib/fci_graph.c: every write lies inside the nele x norb output table, and every read of the 65-wide
   binomial table (malloc'ed, only the entries 0 <= k <= n <= 64 are initialised by binom.h) is of an initialised
   entry - for every 1 <= nele <= norb <= 64. *)
From Coq Require Import ZArith List.
From FQE Require Import GenBase Addr GenLoops Equiv_zmat_c.
From FQE.gen Require Import Gen_zmatrix_c.
Local Open Scope Z_scope.

Theorem C13_zmatrix_writes_in_bounds : forall norb nele x, 1 <= nele <= norb ->
  In x (c_calculate_Z_matrix_assigns norb nele) -> 0 <= fst x < nele * norb.
Proof. exact c_zmat_writes_in_bounds. Qed.
Print Assumptions C13_zmatrix_writes_in_bounds.

Theorem C13_zmatrix_reads_initialised : forall norb nele idx, 1 <= nele <= norb -> norb <= 64 ->
  In idx (c_calculate_Z_matrix_reads norb nele) ->
  0 <= idx mod c_calculate_Z_matrix_width <= idx / c_calculate_Z_matrix_width /\ idx / c_calculate_Z_matrix_width <= 64.
Proof. exact c_zmat_reads_initialised. Qed.
Print Assumptions C13_zmatrix_reads_initialised.

(* non-vacuity: 6 orbitals, 3 electrons perform 24 table reads *)
Example C13_zmatrix_reads_example : length (c_calculate_Z_matrix_reads 6 3) = 24%nat.
Proof. vm_compute. reflexivity. Qed.
