(* Extraction: ExtrOcamlBasic only; nat, N, Z, positive stay inductive. *)
Require Extraction.
Require ExtrOcamlBasic.
From Coq Require Import NArith ZArith.
From FQE Require Import Model Rdm Resid CodeThm NormThm CodeInv.
Extraction Language OCaml.
Extraction "Model.ml"
  m_gather m_apply_verdict m_evolve_inplace_verdict m_genu_verdict m_rdm_tensor_verdict m_setdata_spec m_comm4 m_check_cert m_ext_blocks m_ext_full m_persist m_rdm m_export m_import m_jw_code m_ctor m_trev m_hist m_apply m_apply_h m_matel_h m_inner m_matel m_strings m_zmat m_addr m_exc_map m_dexc m_opstring m_binom
  unitri left_inv m_l1 m_mass m_annih m_cnt_between m_cnt_above64 m_cnt_below m_popcount m_occ
  N.add N.mul N.div_eucl N.of_nat N.to_nat Z.of_N Z.to_N Z.opp Z.add Z.mul Z.abs_N.
